package checks

import (
	"fmt"
	"math/rand"
	"sort"
	"strings"
	"unicode"
	"unicode/utf8"

	"github.com/inspirer/textmapper/lex"
	"verif/internal/fw"
	"verif/internal/rx"
)

// C10 – regular expressions and character classes denote their documented sets;
// malformed patterns are rejected with an error inside the pattern.
//
// Observation points: lex.ParseRegexp (result, error, offsets, Constant()) and
// lex.Compile + Tables.Scan of a single rule on single code points / short strings.

const c10Action = 7

// c10Tables parses and compiles one pattern as the only rule.
func c10Tables(pat string, m rx.Mode, defs map[string]string) (*lex.Regexp, *lex.Tables, error, error) {
	opts := lex.CharsetOptions{Fold: m.Fold, ScanBytes: m.Bytes}
	res := lxResolver{}
	var names []string
	for n := range defs {
		names = append(names, n)
	}
	sort.Strings(names)
	for _, n := range names {
		re, err := lex.ParseRegexp(defs[n], opts)
		if err != nil {
			return nil, nil, fmt.Errorf("pattern %s /%s/: %w", n, defs[n], err), nil
		}
		res[n] = &lex.Pattern{Name: n, RE: re, Text: defs[n], Origin: lxNode(n)}
	}
	re, err := lex.ParseRegexp(pat, opts)
	if err != nil {
		return nil, nil, err, nil
	}
	rule := &lex.Rule{Pattern: &lex.Pattern{Name: "r", RE: re, Text: pat, Origin: lxNode("r")}, Resolver: res,
		StartConditions: []int{0}, Action: c10Action, Origin: lxNode("r")}
	t, cerr := lex.Compile([]*lex.Rule{rule}, m.Bytes, true)
	return re, t, nil, cerr
}

func c10ModeTag(m rx.Mode, fold bool) string {
	t := "runes"
	if m.Bytes {
		t = "bytes"
	}
	if fold {
		t += "+fold"
	}
	return t
}

// checkErrOffsets verifies the error value of a rejected pattern.
func c10CheckErr(c *fw.Ctx, pat string, m rx.Mode, err error, category string) {
	pe, ok := err.(lex.ParseError)
	if !ok {
		c.Violate("error-type/not-a-ParseError/"+category, fmt.Sprintf("pattern %q mode %+v: error %T %v", pat, m, err, err), map[string]string{"pattern.txt": pat})
		return
	}
	c.Count("error_offsets_checked", 1)
	if pe.Offset < 0 || pe.EndOffset > len(pat) || pe.Offset > pe.EndOffset {
		kind := "inverted"
		if pe.Offset < 0 || pe.EndOffset > len(pat) {
			kind = "outside-pattern"
		}
		c.Violate("error-offset/"+kind+"/"+fw.Skeleton(pe.Msg), fmt.Sprintf("pattern %q (len %d) mode %+v: error %q at [%d,%d]", pat, len(pat), m, pe.Msg, pe.Offset, pe.EndOffset), map[string]string{"pattern.txt": pat})
	}
}

// ---------------------------------------------------------------------------
// A1: classes, probed point by point.

type c10ClassCase struct {
	Class *rx.Class
	Mode  rx.Mode // Mode.Fold is the option passed to the parser
	Fold  bool    // effective folding at the class
	Pat   string
	Tag   string
}

// c10Wrap spells a class with the wanted effective fold state.
func c10Wrap(r *rand.Rand, cl *rx.Class, bytes, fold bool) c10ClassCase {
	m := rx.Mode{Bytes: bytes, Fold: fold}
	var root *rx.Node = rx.Cls(cl)
	if r.Intn(3) == 0 {
		// reach the same state through a flag group instead of the option
		m.Fold = r.Intn(2) == 0
		root = &rx.Node{Kind: rx.KFold, On: fold, Sub: []*rx.Node{root}}
	}
	p := &rx.Printer{R: r, Mode: m}
	return c10ClassCase{Class: cl, Mode: m, Fold: fold, Pat: p.Print(root)}
}

func c10Specials(bytes bool) []rune {
	if bytes {
		return []rune{0, 9, 10, 11, ' ', '0', '9', 'A', 'K', 'S', 'Z', '_', 'a', 'k', 's', 'z', 0x7f, 0x80, 0xb5, 0xc0, 0xdf, 0xe0, 0xff}
	}
	return []rune{0, 9, 10, 11, ' ', '0', '9', 'A', 'K', 'S', 'Z', '_', 'a', 'k', 's', 'z', 0x7f, 0x80, 0xb5, 0xff, 0x100, 0x17f, 0x345, 0x39c, 0x3bc, 0x3c2, 0x3c3,
		0x1e9e, 0x2126, 0x212a, 0x212b, 0xd7ff, 0xe000, 0xfeff, 0xfffd, 0xfffe, 0xffff, 0x10000, 0x10400, 0x10428, 0x1e921, 0x10fffe, 0x10ffff}
}

func c10Points(iv rx.Interval, bytes bool) []rune {
	max := rx.MaxRune
	if bytes {
		max = rx.MaxByte
	}
	pts := map[rune]bool{}
	for _, c := range c10Specials(bytes) {
		pts[c] = true
	}
	for _, s := range []rx.Set{iv.Must, iv.May} {
		for i := 0; i < len(s); i += 2 {
			for _, c := range []rune{s[i] - 1, s[i], s[i+1], s[i+1] + 1} {
				if c >= 0 && c <= max {
					pts[c] = true
				}
			}
		}
	}
	return rx.SortedPoints(pts)
}

type c10Features struct{ scriptNoFold []string }

func c10ClassFeatures(cl *rx.Class, fold bool, f *c10Features, tags map[string]bool) {
	if cl.Neg {
		tags["neg"] = true
	}
	if len(cl.Subs) > 0 {
		tags["sub"] = true
	}
	for _, it := range cl.Items {
		switch it.Kind {
		case rx.IPerl:
			tags["perl"] = true
		case rx.IProp:
			k := rx.NamedKind(it.Name)
			tags[k] = true
			if k == "script" && !fold {
				f.scriptNoFold = append(f.scriptNoFold, it.Name)
			}
		}
	}
	for _, s := range cl.Subs {
		c10ClassFeatures(s, fold, f, tags)
	}
}

// c10ProbeClass compiles the class and compares membership. sweep: every code point.
func c10ProbeClass(c *fw.Ctx, cc c10ClassCase, sweep bool) {
	files := map[string]string{"pattern.txt": cc.Pat, "mode.txt": fmt.Sprintf("%+v effective fold=%v", cc.Mode, cc.Fold)}
	_, tables, perr, cerr := c10Tables(cc.Pat, cc.Mode, nil)
	c.Count("patterns_valid", 1)
	if perr != nil {
		c10CheckErr(c, cc.Pat, cc.Mode, perr, "valid-class")
		if n := c10SingleMemberProp(cc.Class); n != "" {
			c.Violate("class/single-member-unicode-class-treated-as-character/rejected", fmt.Sprintf("class pattern %q mode %+v rejected: %v (\\p{%s} has exactly one member)", cc.Pat, cc.Mode, perr, n), files)
			return
		}
		c.Violate("valid-rejected/class/"+fw.Skeleton(strings.TrimPrefix(perr.Error(), "broken regexp: ")), fmt.Sprintf("class pattern %q mode %+v rejected: %v", cc.Pat, cc.Mode, perr), files)
		return
	}
	iv := rx.ClassInterval(cc.Class, cc.Mode, cc.Fold)
	if cerr != nil {
		// only "accepts empty text" could be legitimate, and a class never is empty text
		c.Violate("compile-error/class/"+fw.Skeleton(cerr.Error()), fmt.Sprintf("class pattern %q mode %+v: %v", cc.Pat, cc.Mode, cerr), files)
		return
	}
	var pts []rune
	if sweep {
		max := rx.MaxRune
		if cc.Mode.Bytes {
			max = rx.MaxByte
		}
		pts = make([]rune, 0, int(max)+1)
		for p := rune(0); p <= max; p++ {
			pts = append(pts, p)
		}
		c.Count("classes_swept_over_all_code_points", 1)
	} else {
		pts = c10Points(iv, cc.Mode.Bytes)
	}
	var extra, missing []rune
	var nIn, nOut, nAmb int64
	var buf [4]byte
	for _, p := range pts {
		var text string
		if cc.Mode.Bytes {
			text = string([]byte{byte(p)})
		} else {
			if p >= 0xd800 && p <= 0xdfff {
				continue
			}
			text = string(buf[:utf8.EncodeRune(buf[:], p)])
		}
		size, action := tables.Scan(0, text)
		matched := size == len(text) && action == c10Action
		if !matched && !(size == 0 && action == 0) {
			c.Violate("scan/odd-result-on-single-symbol/"+c10ModeTag(cc.Mode, cc.Fold), fmt.Sprintf("pattern %q, text %q: Scan = (%d,%d)", cc.Pat, text, size, action), files)
			return
		}
		switch {
		case iv.Must.Contains(p):
			nIn++
			if !matched {
				missing = append(missing, p)
			}
		case !iv.May.Contains(p):
			nOut++
			if matched {
				extra = append(extra, p)
			}
		default:
			nAmb++
		}
	}
	c.Eval(nIn + nOut)
	c.Count("class_points_member", nIn)
	c.Count("class_points_nonmember", nOut)
	c.Count("class_points_skipped_inexact_meaning", nAmb)
	if !cc.Mode.Bytes {
		// an invalid byte reads as U+FFFD of width 1
		size, action := tables.Scan(0, "\xff")
		matched := size == 1 && action == c10Action
		if iv.Must.Contains(0xfffd) && !matched || !iv.May.Contains(0xfffd) && matched {
			c.Violate("scan/invalid-utf8-not-treated-as-U+FFFD", fmt.Sprintf("pattern %q text \"\\xff\": Scan = (%d,%d), U+FFFD member=%v", cc.Pat, size, action, iv.Must.Contains(0xfffd)), files)
		}
		c.Count("invalid_utf8_probes", 1)
	}
	if nIn > 0 && nOut > 0 {
		c.Distinct(cc.Pat + "\x00" + c10ModeTag(cc.Mode, cc.Fold))
	}
	if len(extra) == 0 && len(missing) == 0 {
		return
	}
	// classify
	var f c10Features
	tags := map[string]bool{}
	c10ClassFeatures(cc.Class, cc.Fold, &f, tags)
	var tl []string
	for t := range tags {
		tl = append(tl, t)
	}
	sort.Strings(tl)
	feat := strings.Join(tl, "+")
	if feat == "" {
		feat = "plain"
	}
	show := func(ps []rune) string {
		var b strings.Builder
		for i, p := range ps {
			if i == 12 {
				fmt.Fprintf(&b, " … (%d in total)", len(ps))
				break
			}
			fmt.Fprintf(&b, " U+%04X", p)
		}
		return b.String()
	}
	detail := fmt.Sprintf("pattern %q (mode %+v, effective fold %v)\n  matched but not in the denoted set:%s\n  in the denoted set but not matched:%s\n  denoted set (must) %s", cc.Pat, cc.Mode, cc.Fold, show(extra), show(missing), c10ShowSet(iv.Must))
	if len(f.scriptNoFold) > 0 {
		// all differences explained by unicode.FoldScript being merged without case folding?
		var fs rx.Set
		for _, n := range f.scriptNoFold {
			if t := unicode.FoldScript[n]; t != nil {
				fs = fs.Union(rx.TableSet(t))
			}
		}
		all := true
		for _, p := range append(append([]rune(nil), extra...), missing...) {
			if !fs.Contains(p) {
				all = false
			}
		}
		if all {
			c.Violate("class/script-includes-FoldScript-orbit-without-folding", detail, files)
			return
		}
	}
	if n := c10SingleMemberProp(cc.Class); n != "" {
		c.Violate("class/single-member-unicode-class-treated-as-character/membership", detail+fmt.Sprintf("\n  (\\p{%s} has exactly one member)", n), files)
		return
	}
	dir := "extra"
	if len(extra) == 0 {
		dir = "missing"
	} else if len(missing) > 0 {
		dir = "extra+missing"
	}
	c.Violate(fmt.Sprintf("class/%s-members/%s/%s", dir, feat, c10ModeTag(rx.Mode{Bytes: cc.Mode.Bytes}, cc.Fold)), detail, files)
}

// c10SingleMemberProp returns the name of a non-negated \p{..} member of the
// class (at any depth) whose Unicode table has exactly one code point.
func c10SingleMemberProp(cl *rx.Class) string {
	for _, it := range cl.Items {
		if it.Kind == rx.IProp && !it.Neg {
			if s, ok := rx.NamedSet(it.Name); ok && s.Size() == 1 {
				return it.Name
			}
		}
	}
	for _, s := range cl.Subs {
		if n := c10SingleMemberProp(s); n != "" {
			return n
		}
	}
	return ""
}

func c10ShowSet(s rx.Set) string {
	var b strings.Builder
	for i := 0; i < len(s); i += 2 {
		if i >= 24 {
			fmt.Fprintf(&b, " … (%d ranges)", len(s)/2)
			break
		}
		if s[i] == s[i+1] {
			fmt.Fprintf(&b, " %04X", s[i])
		} else {
			fmt.Fprintf(&b, " %04X-%04X", s[i], s[i+1])
		}
	}
	return b.String()
}

func c10AllNames() []string {
	var out []string
	for _, k := range []string{"category", "script", "property"} {
		out = append(out, rx.AllNames(k)...)
	}
	return append(out, "Any")
}

// c10NameClass builds one of the standard shapes around \p{name}.
func c10NameClass(r *rand.Rand, name string, shape int) *rx.Class {
	it := rx.Item{Kind: rx.IProp, Name: name}
	switch shape % 6 {
	case 0:
		return &rx.Class{Bare: true, Items: []rx.Item{it}}
	case 1:
		it.Neg = true
		return &rx.Class{Bare: true, Items: []rx.Item{it}}
	case 2:
		return &rx.Class{Items: []rx.Item{it}}
	case 3:
		return &rx.Class{Neg: true, Items: []rx.Item{it}}
	case 4: // [\p{name}a-z] minus something
		lo := rune(r.Intn(0x3000))
		return &rx.Class{Items: []rx.Item{it, {Kind: rx.IRange, Lo: 'a', Hi: 'z'}}, Subs: []*rx.Class{{Items: []rx.Item{{Kind: rx.IRange, Lo: lo, Hi: lo + rune(r.Intn(0x800))}}}}}
	default: // [\x00-\U0010ffff] minus \p{name}
		return &rx.Class{Items: []rx.Item{{Kind: rx.IRange, Lo: 0, Hi: rx.MaxRune}}, Subs: []*rx.Class{{Bare: true, Items: []rx.Item{it}}}}
	}
}

// ---------------------------------------------------------------------------
// A2/A3: single-rule lexers compared with the model on short strings.

func c10Compare(c *fw.Ctx, s *lxSet, texts []string, kind string) {
	desc := s.describe()
	files := map[string]string{"rules.txt": desc}
	defs := map[string]string{}
	for _, n := range s.DefNames {
		defs[n] = s.DefPats[n]
	}
	c.Count("patterns_valid", 1)
	re, tables, perr, cerr := c10Tables(s.Pats[0], s.Mode, defs)
	if perr != nil {
		msg := perr.Error()
		if i := strings.Index(msg, "broken regexp: "); i >= 0 {
			msg = msg[i+15:]
		}
		if pe, ok := perr.(lex.ParseError); ok {
			c10CheckErr(c, s.Pats[0], s.Mode, pe, "valid-"+kind)
		}
		c.Violate("valid-rejected/"+kind+"/"+fw.Skeleton(msg), perr.Error()+"\n"+desc, files)
		return
	}
	model := rx.NewLexer(s.Mode, s.Rules, s.Defs)
	nullable := rx.Nullable(s.Rules[0].RE, s.Defs)
	if cerr != nil {
		if nullable && strings.Contains(cerr.Error(), "accepts empty text") {
			c.Count("nullable_patterns_rejected_by_compile", 1)
			return
		}
		c.Violate("compile-error/"+kind+"/"+fw.Skeleton(cerr.Error()), cerr.Error()+"\n"+desc, files)
		return
	}
	if model.Ambiguous() {
		c.Count("patterns_skipped_inexact_class", 1)
		return
	}
	// Constant(): "matches exactly one target string"
	if val, ok := re.Constant(); ok {
		c.Count("constant_patterns", 1)
		lens := model.MatchLens(0, val)
		full := false
		for _, l := range lens {
			if l == len(val) {
				full = true
			}
		}
		if !full {
			c.Violate("constant/value-not-in-language/"+c10ModeTag(s.Mode, false), fmt.Sprintf("Constant() = %q, which the pattern does not match\n%s", val, desc), files)
		}
		sm := &rx.Sampler{R: rand.New(rand.NewSource(1)), Mode: s.Mode, Defs: s.Defs}
		for k := 0; k < 6 && full; k++ {
			var b strings.Builder
			if sm.Sentence(&b, s.Rules[0].RE, s.Mode.Fold, 0) && b.String() != val {
				c.Violate("constant/language-has-another-string/"+c10ModeTag(s.Mode, false), fmt.Sprintf("Constant() = %q but the pattern also matches %q\n%s", val, b.String(), desc), files)
				break
			}
		}
	}
	outcomes := map[bool]bool{}
	for _, t := range texts {
		want := model.Scan(0, t)
		wantAction := 0
		if want.Rule >= 0 {
			wantAction = c10Action
		}
		size, action := tables.Scan(0, t)
		c.Eval(1)
		outcomes[want.Rule >= 0] = true
		if size == want.Size && action == wantAction {
			continue
		}
		sig := c09Sig(s, want, wantAction, size, action, map[int]bool{0: true, c10Action: true})
		sig = strings.Replace(sig, "scan/", "denotation/"+kind+"/", 1)
		if s.Tags["fold"] && !strings.HasSuffix(sig, "empty-token-returned") {
			sig += "+fold"
		}
		c.Violate(sig, fmt.Sprintf("text %q:\n  Tables.Scan = (size %d, action %d)\n  model       = (size %d, action %d) [longest live prefix %d]\n%s", t, size, action, want.Size, wantAction, want.Live, desc),
			map[string]string{"rules.txt": desc, "text.bin": t})
		return
	}
	if len(outcomes) == 2 {
		c.Distinct(desc)
	}
}

func c10OneRule(m rx.Mode, re *rx.Node, defs rx.Defs, names []string, r *rand.Rand) *lxSet {
	s := &lxSet{Mode: m, Defs: defs, DefNames: names, NumSC: 1, Backtrk: true, Tags: map[string]bool{}}
	s.Rules = []rx.Rule{{RE: re, Action: c10Action, SCs: []int{0}}}
	if m.Fold || rx.Has(re, defs, rx.KFold) {
		s.Tags["fold"] = true
	}
	lxSpell(r, s)
	return s
}

func c10RandomRune(r *rand.Rand) rune {
	switch r.Intn(6) {
	case 0:
		return rune(r.Intn(0x80))
	case 1:
		return rune(0x80 + r.Intn(0x780))
	case 2:
		return rune(0x800 + r.Intn(0xd000))
	case 3:
		return rune(0xe000 + r.Intn(0x2000))
	case 4:
		return rune(0x10000 + r.Intn(0x100000))
	}
	f := rx.Foldable()
	return f[r.Intn(len(f))]
}

// c10CharSpelling: one or a few characters, every spelling, all four modes.
func c10CharSpelling(c *fw.Ctx, r *rand.Rand) {
	m := rx.Mode{Bytes: r.Intn(3) == 0, Fold: r.Intn(2) == 0}
	n := 1 + r.Intn(3)
	var chars []rune
	for len(chars) < n {
		ch := c10RandomRune(r)
		if m.Bytes && rx.ByteFoldTrap(ch) {
			continue // probed in the dedicated cases (the compiler exits)
		}
		chars = append(chars, ch)
	}
	var subs []*rx.Node
	for _, ch := range chars {
		subs = append(subs, rx.Ch(ch))
	}
	re := rx.Cat(subs...)
	if r.Intn(3) == 0 {
		on := r.Intn(2) == 0
		re = &rx.Node{Kind: rx.KFold, On: on, Sub: []*rx.Node{re}}
	}
	s := c10OneRule(m, re, rx.Defs{}, nil, r)
	// texts: every combination of case variants and neighbours of the characters
	var texts []string
	var rec func(i int, cur string)
	rec = func(i int, cur string) {
		if len(texts) > 200 {
			return
		}
		if i == len(chars) {
			texts = append(texts, cur, cur+"x")
			return
		}
		alts := rx.Orbit(chars[i], false)
		alts = append(alts, chars[i]+1, chars[i]-1)
		for _, a := range alts {
			if a < 0 || a > rx.MaxRune || a >= 0xd800 && a <= 0xdfff {
				continue
			}
			rec(i+1, cur+string(a))
		}
		if m.Bytes && chars[i] <= 0xff {
			rec(i+1, cur+string([]byte{byte(chars[i])}))
		}
	}
	rec(0, "")
	full := string(chars)
	for i := 1; i < len(full); i++ {
		texts = append(texts, full[:i])
	}
	texts = append(texts, "")
	c.Count("char_spelling_patterns", 1)
	c10Compare(c, s, texts, "chars")
}

// c10QuoteSpelling: \Q..\E literals with cased letters inside and outside ASCII (two to four
// UTF-8 bytes, case orbits of two and three members), with and without folding, in both modes,
// between ordinary atoms; texts are all case variants of the quoted text, neighbours and prefixes.
func c10QuoteSpelling(c *fw.Ctx, r *rand.Rand) {
	m := rx.Mode{Bytes: r.Intn(4) == 0, Fold: r.Intn(2) == 0}
	n := 1 + r.Intn(4)
	var chars []rune
	for len(chars) < n {
		ch := rx.CasedLetters[r.Intn(len(rx.CasedLetters))]
		if r.Intn(4) == 0 {
			ch = rune("0_+ .-"[r.Intn(6)])
		}
		if m.Bytes && rx.ByteFoldTrap(ch) {
			continue
		}
		chars = append(chars, ch)
	}
	var re *rx.Node = &rx.Node{Kind: rx.KQuote, Text: string(chars)}
	var pre, suf []rune
	if r.Intn(2) == 0 {
		pre = []rune{rune("x1("[r.Intn(3)])}
	}
	if r.Intn(2) == 0 {
		suf = []rune{rune("y2)"[r.Intn(3)])}
	}
	parts := []*rx.Node{}
	for _, p := range pre {
		parts = append(parts, rx.Ch(p))
	}
	parts = append(parts, re)
	if r.Intn(5) == 0 {
		parts[len(parts)-1] = rx.Rep(re, 1, 2) // a quantifier after \E covers the whole quoted text
	}
	for _, p := range suf {
		parts = append(parts, rx.Ch(p))
	}
	re = rx.Cat(parts...)
	if r.Intn(2) == 0 {
		re = &rx.Node{Kind: rx.KFold, On: r.Intn(4) != 0, Sub: []*rx.Node{re}}
	}
	s := c10OneRule(m, re, rx.Defs{}, nil, r)
	all := append(append(append([]rune(nil), pre...), chars...), suf...)
	var texts []string
	var rec func(i int, cur string)
	rec = func(i int, cur string) {
		if len(texts) > 300 {
			return
		}
		if i == len(all) {
			texts = append(texts, cur, cur+"x", cur+string(chars))
			return
		}
		alts := rx.Orbit(all[i], false)
		if r.Intn(3) == 0 {
			alts = append(alts, all[i]+1)
		}
		for _, a := range alts {
			if a >= 0xd800 && a <= 0xdfff || a > rx.MaxRune {
				continue
			}
			rec(i+1, cur+string(a))
		}
	}
	rec(0, "")
	full := string(all)
	for i := 1; i < len(full); i++ {
		texts = append(texts, full[:i])
	}
	texts = append(texts, "")
	c.Count("quoted_literal_patterns", 1)
	if m.Fold || rx.Has(re, rx.Defs{}, rx.KFold) {
		c.Count("quoted_literal_patterns_with_fold_flag", 1)
	}
	c10Compare(c, s, texts, "quoted")
}

// c10Regex: a random small expression with every construct, on derived strings.
func c10Regex(c *fw.Ctx, r *rand.Rand) {
	m := rx.Mode{Bytes: r.Intn(4) == 0, Fold: r.Intn(4) == 0}
	alpha := rx.PickAlphabet(r, m)
	defs := rx.Defs{}
	g := &rx.Gen{R: r, Mode: m, Alpha: alpha, Defs: defs, Props: true, FoldGroup: true, Quote: true, EmptyBits: true, MaxRep: 16, ExactOnly: r.Intn(4) != 0, PropNames: lxPropNames()}
	var names []string
	if r.Intn(3) == 0 {
		defs["frag"] = g.Rule(1 + r.Intn(3))
		names = []string{"frag"}
		g.Names = names
	}
	var re *rx.Node
	for {
		re = g.Rule(1 + r.Intn(7))
		if rx.Count(re, defs) <= 300 {
			break
		}
	}
	s := c10OneRule(m, re, defs, names, r)
	texts, _ := lxTexts(r, s, 60, 3)
	c.Count("regex_patterns", 1)
	c10Compare(c, s, texts, "regex")
}

// ---------------------------------------------------------------------------
// B: malformed patterns.

type c10Bad struct {
	Pat      string
	Category string
	Bytes    bool
}

func c10HexDigits(r *rand.Rand, n int) string {
	const d = "0123456789abcdefABCDEF"
	var b strings.Builder
	for i := 0; i < n; i++ {
		b.WriteByte(d[r.Intn(len(d))])
	}
	return b.String()
}

var c10Prefixes = []string{"", "", "a", "ab", "(x)", "[a-z]+", `\n`, "é", "a|", "(?i)"}
var c10Suffixes = []string{"", "", "(b)", " ", "|c", "(?:d)*", " e"}

func c10Malformed(r *rand.Rand) c10Bad {
	pre := c10Prefixes[r.Intn(len(c10Prefixes))]
	suf := c10Suffixes[r.Intn(len(c10Suffixes))]
	wrap := func(core, cat string) c10Bad {
		return c10Bad{Pat: pre + core + suf, Category: cat, Bytes: r.Intn(3) == 0}
	}
	letter, width := "x", 2
	switch r.Intn(3) {
	case 1:
		letter, width = "u", 4
	case 2:
		letter, width = "U", 8
	}
	inClass := func(core string) string {
		if r.Intn(3) == 0 {
			return "[" + core + "]"
		}
		return core
	}
	switch k := r.Intn(24); k {
	case 0, 1, 2: // a non-hex character among the digits
		var bad byte
		cat := ""
		switch k {
		case 0:
			bad, cat = byte('G'+r.Intn(20)), "hex-escape/letter-G-Z"
		case 1:
			bad, cat = byte('g'+r.Intn(20)), "hex-escape/letter-g-z"
		default:
			bad, cat = "-_ .:;!@#~,"[r.Intn(11)], "hex-escape/non-hex-character"
		}
		if r.Intn(4) == 0 {
			n := 1 + r.Intn(4)
			ds := []byte(c10HexDigits(r, n))
			ds[r.Intn(n)] = bad
			return wrap(inClass(`\`+letter+"{"+string(ds)+"}"), cat+"/braced")
		}
		ds := []byte(c10HexDigits(r, width))
		pos := r.Intn(width)
		ds[pos] = bad
		// what follows the escape must not matter: digits after the bad one stay hex
		return wrap(inClass(`\`+letter+string(ds)), cat)
	case 3: // too few digits
		n := r.Intn(width)
		core := `\` + letter + c10HexDigits(r, n)
		if r.Intn(2) == 0 {
			return c10Bad{Pat: pre + core, Category: "hex-escape/too-short-at-end", Bytes: r.Intn(3) == 0}
		}
		return c10Bad{Pat: pre + core + []string{"(b)", " ", "|c", "(?:d)*"}[r.Intn(4)], Category: "hex-escape/too-short", Bytes: r.Intn(3) == 0}
	case 4: // braces
		switch r.Intn(4) {
		case 0:
			return c10Bad{Pat: pre + `\` + letter + "{", Category: "hex-escape/brace-unterminated", Bytes: r.Intn(3) == 0}
		case 1:
			return c10Bad{Pat: pre + `\` + letter + "{" + c10HexDigits(r, 1+r.Intn(4)), Category: "hex-escape/brace-unterminated", Bytes: r.Intn(3) == 0}
		case 2:
			return wrap(`\`+letter+"{}", "hex-escape/brace-empty")
		}
		return wrap(`\`+letter+"{"+c10HexDigits(r, 1+r.Intn(3))+[]string{"(b)", " ", "|c"}[r.Intn(3)], "hex-escape/brace-unterminated")
	case 5: // value above the largest code point
		switch r.Intn(4) {
		case 0:
			return c10Bad{Pat: pre + inClass(fmt.Sprintf(`\U%08X`, 0x110000+r.Intn(0x7fee0000))) + suf, Category: "hex-escape/above-10FFFF"}
		case 1:
			return c10Bad{Pat: pre + inClass(fmt.Sprintf(`\%s{%x}`, letter, 0x110000+r.Intn(0x7fee0000))) + suf, Category: "hex-escape/above-10FFFF/braced"}
		case 2: // more than 32 bits: the low bits look harmless
			return c10Bad{Pat: pre + inClass(fmt.Sprintf(`\%s{%x%08x}`, letter, 1+r.Intn(0xfff), r.Intn(0x110000))) + suf, Category: "hex-escape/above-32-bits/braced"}
		}
		return c10Bad{Pat: pre + inClass(fmt.Sprintf(`\U%08X`, uint32(0x80000000)+uint32(r.Intn(0x7fffffff)))) + suf, Category: "hex-escape/above-7FFFFFFF"}
	case 6: // octal
		switch r.Intn(3) {
		case 0:
			return wrap(inClass(fmt.Sprintf(`\%o`, 0x100+r.Intn(0x100))), "octal-escape/above-377")
		case 1:
			return wrap(inClass(`\`+[]string{"8", "9", "80", "999"}[r.Intn(4)]), "octal-escape/not-octal-digit")
		}
		return wrap(fmt.Sprintf(`\%o`, r.Intn(8))+[]string{"", "8", "(", " "}[r.Intn(4)], "octal-escape/too-short")
	case 7:
		l := "bceghijklmoqyzABCFGHIJKLMNORTVXYZ"
		return wrap(inClass(`\`+string(l[r.Intn(len(l))])), "unknown-escape")
	case 8:
		if r.Intn(2) == 0 {
			return c10Bad{Pat: pre + `\`, Category: "trailing-backslash", Bytes: r.Intn(3) == 0}
		}
		return c10Bad{Pat: pre + `[a\`, Category: "trailing-backslash", Bytes: r.Intn(3) == 0}
	case 9:
		pairs := [][2]string{{"z", "a"}, {"b", "a"}, {"9", "0"}, {`\x42`, `\x41`}, {"a", "A"}, {`\u0100`, `\u00ff`}, {"é", "e"}, {`\n`, `\t`}, {`\U0010ffff`, `\x00`}}
		p := pairs[r.Intn(len(pairs))]
		bytes := r.Intn(3) == 0 && !strings.ContainsAny(p[0]+p[1], "é") && !strings.Contains(p[0], "u0100") && !strings.Contains(p[0], "U0010")
		neg := []string{"", "^"}[r.Intn(2)]
		return c10Bad{Pat: pre + "[" + neg + []string{"", "x", "0-9"}[r.Intn(3)] + p[0] + "-" + p[1] + []string{"", "y"}[r.Intn(2)] + "]" + suf, Category: "class/inverted-range", Bytes: bytes}
	case 10:
		return wrap("["+[]string{"", "^", "x"}[r.Intn(3)]+"a-"+[]string{`\d`, `\w`, `\s`, `\D`, `\p{L}`, `\pN`}[r.Intn(6)]+"]", "class/range-to-a-set")
	case 11:
		cores := []string{"[", "[^", "[a-z", "[]", "[^]", "[a-", "[abc", `[a\]`, "[a-z-[b]", `[\d`}
		core := cores[r.Intn(len(cores))]
		return c10Bad{Pat: pre + core + []string{"", "(b)", " ", "|c"}[r.Intn(4)], Category: "class/unclosed", Bytes: r.Intn(3) == 0}
	case 12:
		cores := []string{"(", "(a", "a(b|c", "((a)", "(?:a", "(a|(b)"}
		return wrap(cores[r.Intn(len(cores))], "parenthesis/unclosed")
	case 13:
		cores := []string{")", "a)", "(a))", "a|b)", "())"}
		if strings.HasSuffix(pre, "|") || pre == "(?i)" {
			pre = ""
		}
		return c10Bad{Pat: pre + cores[r.Intn(len(cores))] + suf, Category: "parenthesis/unopened", Bytes: r.Intn(3) == 0}
	case 14:
		a := 1 + r.Intn(16)
		b := r.Intn(a)
		return wrap(fmt.Sprintf("%s{%d,%d}", []string{"a", "[a-z]", "(ab)", `\d`}[r.Intn(4)], a, b), "quantifier/max-below-min")
	case 15:
		cores := []string{"a{1,", "a{1", "a{12,3", "a{1x}", "a{1,2x}", "a{1,,2}", "a{1 }", "a{ 1}", "a{,3}", "a{-1}", "a{1;2}"}
		return c10Bad{Pat: pre + cores[r.Intn(len(cores))], Category: "quantifier/malformed", Bytes: r.Intn(3) == 0}
	case 16:
		cores := []string{"{3}", "{1,2}a", "({2}a)", "a|{2}", "(|{2,})", "{0}"}
		return c10Bad{Pat: cores[r.Intn(len(cores))] + suf, Category: "quantifier/nothing-to-repeat", Bytes: r.Intn(3) == 0}
	case 17:
		return wrap("a{"+strings.Repeat("9", 20+r.Intn(10))+[]string{"}", ",}", ",3}"}[r.Intn(3)], "quantifier/number-overflow")
	case 18:
		cores := []string{"(?x)", "(?", "(?i", "(?ix:a)", "(?P<n>a)", "(?<n>a)", "(?=a)", "(?!a)", "(?#c)", "(?i:a"}
		return c10Bad{Pat: pre + cores[r.Intn(len(cores))], Category: "group-flags", Bytes: r.Intn(3) == 0}
	case 19:
		cores := []string{`\p{`, `\p{}`, `\p{L`, `\p{NoSuchClass}`, `\pq`, `\p`, `\p{L u}`, `\P{}`, `\p{^}`, `\p{Lu`, `\P{Foo}`, `\p{greek}`}
		core := cores[r.Intn(len(cores))]
		if core == `\p` || strings.HasSuffix(core, "{") || !strings.HasSuffix(core, "}") && core != `\pq` {
			return c10Bad{Pat: pre + core, Category: "unicode-class/malformed", Bytes: r.Intn(3) == 0}
		}
		return wrap(inClass(core), "unicode-class/malformed-or-unknown")
	case 20:
		cores := []string{"{", "{}", "{a", "{a-b}", "a{", "{é}", "{ a}", "{a b}"}
		return c10Bad{Pat: pre + cores[r.Intn(len(cores))], Category: "named-pattern-reference/malformed", Bytes: r.Intn(3) == 0}
	case 21:
		cores := []string{"\xff", "a\xc3", "\xe2\x82", "[\xff]", "\\Q\xfe\\E", "(\xc0\x80)", "[a-\xff]", "\\\xff", "\xed\xa0\x80", "\xf4\x90\x80\x80"}
		return wrap(cores[r.Intn(len(cores))], "invalid-utf8")
	case 22:
		cores := []string{"[α]", `[\u0100]`, `[a-\u0100]`, "[a-α]", `[\x{100}]`, `[^\u2028]`, `[\U00010000]`, `[\xff-\u0100]`, "[€]"}
		return c10Bad{Pat: pre + cores[r.Intn(len(cores))] + suf, Category: "byte-mode/class-member-above-FF", Bytes: true}
	default:
		cores := []string{`\p{Lu}`, `\p{Greek}`, `[\p{L}]`, `\P{Nd}`, `\pL`, `[^\p{White_Space}]`}
		return c10Bad{Pat: pre + cores[r.Intn(len(cores))] + suf, Category: "byte-mode/unicode-class", Bytes: true}
	}
}

func c10CheckMalformed(c *fw.Ctx, r *rand.Rand) {
	b := c10Malformed(r)
	m := rx.Mode{Bytes: b.Bytes, Fold: r.Intn(3) == 0}
	files := map[string]string{"pattern.txt": b.Pat, "mode.txt": fmt.Sprintf("%+v", m)}
	var re *lex.Regexp
	var err error
	if !c.Guard("parse-malformed", files, func() { re, err = lex.ParseRegexp(b.Pat, lex.CharsetOptions{Fold: m.Fold, ScanBytes: m.Bytes}) }) {
		return
	}
	c.Eval(1)
	c.Count("patterns_malformed", 1)
	c.Count("malformed/"+strings.SplitN(b.Category, "/", 2)[0], 1)
	if err == nil {
		c.Violate("malformed-accepted/"+b.Category, fmt.Sprintf("pattern %q (mode %+v) is malformed (%s) but was accepted and parsed as /%v/", b.Pat, m, b.Category, re), files)
		return
	}
	c.Count("malformed_rejected", 1)
	c.Distinct("bad\x00" + b.Pat)
	c10CheckErr(c, b.Pat, m, err, "malformed")
}

// c10Fuzz: arbitrary strings; only crashes and error positions are judged.
func c10Fuzz(c *fw.Ctx, r *rand.Rand) {
	const frag = `ab01AZ\\\\[]()(){}{}|*+?-^.,:xuUpPdwsQE` + "\x00\n\xff\xc3é€😀"
	n := 1 + r.Intn(14)
	var b strings.Builder
	for i := 0; i < n; i++ {
		if r.Intn(8) == 0 {
			b.WriteString([]string{`\x`, `\u`, `\U`, `\p{`, `(?i`, `[^`, `{eoi}`, `\Q`, `\E`, `{1,`, `-[`}[r.Intn(11)])
			continue
		}
		b.WriteByte(frag[r.Intn(len(frag))])
	}
	pat := b.String()
	m := rx.Mode{Bytes: r.Intn(2) == 0, Fold: r.Intn(2) == 0}
	files := map[string]string{"pattern.txt": pat, "mode.txt": fmt.Sprintf("%+v", m)}
	var err error
	if !c.Guard("parse-fuzz", files, func() { _, err = lex.ParseRegexp(pat, lex.CharsetOptions{Fold: m.Fold, ScanBytes: m.Bytes}) }) {
		return
	}
	c.Eval(1)
	c.Count("patterns_fuzzed", 1)
	if err != nil {
		c.Count("fuzzed_rejected", 1)
		c10CheckErr(c, pat, m, err, "fuzz")
	} else {
		c.Count("fuzzed_accepted", 1)
	}
}

// ---------------------------------------------------------------------------
// C: fixed probes of the case-insensitivity flag.

// c10FoldConsistency: under (?i), a predefined class must mean the same with and
// without brackets around it (whatever the reading of "case-insensitive \w" is).
func c10FoldConsistency(c *fw.Ctx) {
	for _, bytes := range []bool{false, true} {
		for _, esc := range []string{`\w`, `\W`, `\d`, `\D`, `\s`, `\S`, `\p{Lu}`, `\P{Lu}`, `\p{Ll}`, `\p{Greek}`, `\p{Other_Lowercase}`, `\P{Other_Uppercase}`, `\p{Any}`} {
			if bytes && strings.Contains(strings.ToLower(esc), `\p`) && esc != `\p{Any}` {
				continue
			}
			m := rx.Mode{Bytes: bytes, Fold: true}
			_, t1, p1, c1 := c10Tables(esc, m, nil)
			_, t2, p2, c2 := c10Tables("["+esc+"]", m, nil)
			if p1 != nil || p2 != nil || c1 != nil || c2 != nil {
				c.Violate("valid-rejected/fold-consistency", fmt.Sprintf("%s / [%s] mode %+v: %v %v %v %v", esc, esc, m, p1, p2, c1, c2), nil)
				continue
			}
			var diff []rune
			max := rx.MaxRune
			if bytes {
				max = rx.MaxByte
			}
			pts := append([]rune(nil), rx.Foldable()...)
			pts = append(pts, c10Specials(bytes)...)
			for _, p := range pts {
				if p > max || p >= 0xd800 && p <= 0xdfff {
					continue
				}
				text := rx.Encode(p, bytes)
				s1, a1 := t1.Scan(0, text)
				s2, a2 := t2.Scan(0, text)
				c.Eval(1)
				if s1 != s2 || a1 != a2 {
					diff = append(diff, p)
				}
			}
			c.Count("fold_consistency_pairs", 1)
			if len(diff) > 0 {
				var b strings.Builder
				for i, p := range diff {
					if i == 10 {
						fmt.Fprintf(&b, " … (%d)", len(diff))
						break
					}
					fmt.Fprintf(&b, " U+%04X", p)
				}
				kind := "perl-class"
				if strings.Contains(strings.ToLower(esc), `\p`) {
					kind = "unicode-class"
				}
				c.Violate("fold/bare-"+kind+"-differs-from-bracketed", fmt.Sprintf("with case folding on (mode %+v), /%s/ and /[%s]/ disagree on:%s", m, esc, esc, b.String()), map[string]string{"pattern.txt": esc})
			}
		}
	}
}

// c10FoldQuote: \Q..\E under (?i).
func c10FoldQuote(c *fw.Ctx) {
	for _, bytes := range []bool{false, true} {
		for _, pat := range []string{`(?i)\Qab\E`, `(?i:\QaB\E)`, `\Qab\E`} {
			m := rx.Mode{Bytes: bytes, Fold: !strings.Contains(pat, "?i")}
			_, t, perr, cerr := c10Tables(pat, m, nil)
			if perr != nil || cerr != nil {
				c.Violate("valid-rejected/fold-quote", fmt.Sprintf("%s mode %+v: %v %v", pat, m, perr, cerr), nil)
				continue
			}
			for _, text := range []string{"ab", "AB", "Ab", "aB"} {
				size, action := t.Scan(0, text)
				c.Eval(1)
				c.Count("fold_quote_probes", 1)
				if size != 2 || action != c10Action {
					c.Violate("fold/quoted-literal-not-folded", fmt.Sprintf("pattern /%s/ with case folding on (mode %+v) on %q: Scan = (%d,%d), want (2,%d)", pat, m, text, size, action, c10Action), map[string]string{"pattern.txt": pat})
					break
				}
			}
		}
	}
}

// c10EmptyPatterns: every spelling of "nothing" (and the usual nullable shapes) as a single
// rule: it denotes a language containing the empty string, so a lexer built from it must not
// hand out zero-length tokens - lex.Compile has to refuse it.
func c10EmptyPatterns(c *fw.Ctx) {
	for _, ep := range lxEmptyPatterns {
		for mode := 0; mode < 4; mode++ {
			m := rx.Mode{Bytes: mode&1 != 0, Fold: mode&2 != 0}
			files := map[string]string{"pattern.txt": ep.Pat, "mode.txt": fmt.Sprintf("%+v %v", m, ep.Defs)}
			c.Note(files)
			_, tables, perr, cerr := c10Tables(ep.Pat, m, ep.Defs)
			c.Count("empty_patterns_probed", 1)
			if perr != nil {
				c.Violate("valid-rejected/empty-pattern/"+fw.Skeleton(perr.Error()), fmt.Sprintf("pattern %q mode %+v: %v", ep.Pat, m, perr), files)
				continue
			}
			if cerr != nil {
				c.Count("empty_patterns_rejected_by_compile", 1)
				continue
			}
			for _, text := range []string{"", "a", "ab 1", "1"} {
				size, action := tables.Scan(0, text)
				c.Eval(1)
				if size == 0 && action != 0 {
					c.Violate("denotation/regex/empty-token-returned", fmt.Sprintf("pattern /%s/ (patterns %v, mode %+v) compiled; on %q Tables.Scan = (0, %d): a zero-length token", ep.Pat, ep.Defs, m, text, action), files)
					break
				}
			}
		}
	}
}

// c10ByteFoldTrap: byte mode + case folding + an escape for U+017F / U+212A. The
// documented byte-mode meaning is "the UTF-8 bytes of that character, no folding
// outside ASCII". (The compiler is known to exit here, so this is a case of its own.)
func c10ByteFoldTrap(c *fw.Ctx, ch rune) {
	pat := fmt.Sprintf(`\u%04x`, ch)
	m := rx.Mode{Bytes: true, Fold: true}
	c.Note(map[string]string{"pattern.txt": pat, "mode.txt": fmt.Sprintf("%+v", m)})
	s := c10OneRule(m, rx.Ch(ch), rx.Defs{}, nil, rand.New(rand.NewSource(1)))
	s.Pats[0] = pat
	enc := string(ch)
	c.Count("byte_fold_trap_probes", 1)
	c10Compare(c, s, []string{enc, enc[:1], "s", "S", "k", "K", enc + "x", ""}, "byte-fold-nonascii-escape")
}

// ---------------------------------------------------------------------------

type c10Plan struct {
	fixed, names, classes, chars, regex, bad, fuzz, sweeps  int // number of cases of each kind
	perClass, perChars, perRegex, perBad, perFuzz, perSweep int
}

func c10PlanFor(tier string) c10Plan {
	if tier == "thorough" {
		return c10Plan{fixed: 5, names: 64, classes: 200, chars: 100, regex: 200, bad: 100, fuzz: 40, sweeps: 200,
			perClass: 60, perChars: 100, perRegex: 100, perBad: 200, perFuzz: 500, perSweep: 2}
	}
	return c10Plan{fixed: 5, names: 16, classes: 24, chars: 12, regex: 24, bad: 12, fuzz: 4, sweeps: 8,
		perClass: 30, perChars: 50, perRegex: 40, perBad: 100, perFuzz: 250, perSweep: 1}
}

func (p c10Plan) total() int {
	return p.fixed + p.names + p.classes + p.chars + p.regex + p.bad + p.fuzz + p.sweeps
}

func c10RandomClassCase(r *rand.Rand) c10ClassCase {
	bytes := r.Intn(4) == 0
	fold := r.Intn(3) == 0
	m := rx.Mode{Bytes: bytes, Fold: fold}
	g := &rx.Gen{R: r, Mode: m, Alpha: rx.PickAlphabet(r, m), Props: true}
	g.Reset()
	return c10Wrap(r, g.Class(), bytes, fold)
}

func c10Run(c *fw.Ctx) {
	p := c10PlanFor(c.Tier)
	i := c.Case
	switch {
	case i < p.fixed:
		switch i {
		case 0:
			c10FoldConsistency(c)
		case 1:
			c10FoldQuote(c)
		case 2:
			c10ByteFoldTrap(c, 0x17f)
		case 3:
			c10ByteFoldTrap(c, 0x212a)
		case 4:
			c10EmptyPatterns(c)
		}
		return
	}
	i -= p.fixed
	if i < p.names {
		// every \p name, in six shapes, with and without folding
		names := c10AllNames()
		for k := i; k < len(names); k += p.names {
			for shape := 0; shape < 6; shape++ {
				for _, fold := range []bool{false, true} {
					if c.Tier != "thorough" && (shape+k)%2 == 1 && fold {
						continue
					}
					r := c.SubRand(k*100 + shape*2 + map[bool]int{false: 0, true: 1}[fold])
					cc := c10Wrap(r, c10NameClass(r, names[k], shape), false, fold)
					c.Count("unicode_class_patterns", 1)
					c10ProbeClass(c, cc, false)
				}
			}
		}
		// Any is the only one allowed in byte mode
		if i == 0 {
			for shape := 0; shape < 4; shape++ {
				r := c.SubRand(99000 + shape)
				c10ProbeClass(c, c10Wrap(r, c10NameClass(r, "Any", shape), true, shape%2 == 0), false)
			}
		}
		return
	}
	i -= p.names
	if i < p.classes {
		for k := 0; k < p.perClass; k++ {
			cc := c10RandomClassCase(c.SubRand(k))
			if k == 0 {
				c.Sample(map[string]any{"class": cc.Pat, "mode": fmt.Sprintf("%+v", cc.Mode)})
			}
			c.Count("random_class_patterns", 1)
			c10ProbeClass(c, cc, false)
		}
		return
	}
	i -= p.classes
	if i < p.chars {
		for k := 0; k < p.perChars; k++ {
			if k%3 == 2 {
				c10QuoteSpelling(c, c.SubRand(k))
				continue
			}
			c10CharSpelling(c, c.SubRand(k))
		}
		return
	}
	i -= p.chars
	if i < p.regex {
		for k := 0; k < p.perRegex; k++ {
			c10Regex(c, c.SubRand(k))
		}
		return
	}
	i -= p.regex
	if i < p.bad {
		for k := 0; k < p.perBad; k++ {
			c10CheckMalformed(c, c.SubRand(k))
		}
		return
	}
	i -= p.bad
	if i < p.fuzz {
		for k := 0; k < p.perFuzz; k++ {
			c10Fuzz(c, c.SubRand(k))
		}
		return
	}
	i -= p.fuzz
	// full sweeps: random classes and named classes alternate
	names := c10AllNames()
	for k := 0; k < p.perSweep; k++ {
		r := c.SubRand(k)
		var cc c10ClassCase
		if (i+k)%2 == 0 {
			cc = c10RandomClassCase(r)
		} else {
			cc = c10Wrap(r, c10NameClass(r, names[r.Intn(len(names))], r.Intn(6)), false, r.Intn(3) == 0)
		}
		c10ProbeClass(c, cc, true)
	}
}

func init() {
	fw.Register(&fw.Check{
		ID: "C10",
		Rule: "case kinds: (1) fixed probes of the case-insensitivity flag (bare vs bracketed predefined classes, \\Q..\\E, byte mode with escapes of U+017F/U+212A); " +
			"(2) every name of unicode.Categories/Scripts/Properties as \\p{..}, \\P{..}, [\\p{..}], [^\\p{..}], with a range and a subtraction, and subtracted from everything, with and without folding; " +
			"(3) random bracket classes (characters, ranges, \\d\\w\\s and negations, \\p{..}, negation, nested -[..] subtraction, fold through the option or a (?i:) group, byte mode with bytes >= 0x80), every member spelled at random " +
			"(raw, \\c, \\xHH, \\uHHHH, \\UHHHHHHHH, \\x{..}, \\u{..}, octal, \\n..): each class is compiled alone and probed with single code points at all range boundaries +-1 of the denoted set, " +
			"0/0x7f/0x80/0xff/0x100/surrogate edges/U+FFFD/0x10FFFF and case-orbit specials, plus the invalid byte 0xff; (4) the same for every code point 0..0x10FFFF (full sweeps); " +
			"(5) one to three characters in every spelling x fold x byte mode on all case variants/neighbours/prefixes; (6) random small expressions (quantifier spellings, groups, named patterns, \\Q..\\E, (?i) groups, bounds to 16) " +
			"against the NFA model on derived strings, with Constant() checked against the language; (7) malformed patterns generated by rule in random context, which must be rejected with a ParseError whose offsets lie in [0,len]; " +
			"(8) random strings of syntax fragments: no panic, offsets in range. A class is non-trivial when members and non-members were both probed; a malformed pattern when it is distinct",
		Assumptions: []string{
			"class denotations of internal/rx built from Go's unicode tables (cross-checked with unicode.Is) and unicode.SimpleFold orbits",
			"where the syntax description leaves the meaning open (case folding applied to predefined classes or to subtractions) all readings are admitted and only points on which they agree are judged",
			"byte mode: characters outside ASCII standing alone mean their UTF-8 bytes, class members below 0x100 mean single bytes; \\xHH / octal escapes of 0x80-0xff outside classes are not generated",
			"a leading * + ? is a literal (pinned by the repository's tests) and is not in the malformed corpus",
		},
		Cases:         func(tier string) int { return c10PlanFor(tier).total() },
		Run:           c10Run,
		MinNontrivial: func(tier string) int { return map[string]int{"thorough": 20000}[tier] + 1500 },
		RequiredCounters: []string{"patterns_valid", "patterns_malformed", "malformed_rejected", "error_offsets_checked", "class_points_member", "class_points_nonmember",
			"classes_swept_over_all_code_points", "unicode_class_patterns", "random_class_patterns", "char_spelling_patterns", "regex_patterns", "constant_patterns",
			"fuzzed_rejected", "fuzzed_accepted", "fold_consistency_pairs", "fold_quote_probes", "invalid_utf8_probes", "nullable_patterns_rejected_by_compile", "empty_patterns_probed", "quoted_literal_patterns_with_fold_flag"},
		CPUBudget: 900,
	})
}
