package checks

import (
	"fmt"
	"sort"
	"strings"
	"time"

	"verif/internal/fw"
	"verif/internal/genrun"
	"verif/internal/gram"
)

// C02 – listener events reproduce the unique derivation.

type xGrammarRun struct {
	xg  *gram.XGrammar
	pkg *genrun.Pkg
}

// compileXCandidates compiles extended grammars until n are accepted.
func compileXCandidates(c *fw.Ctx, n, maxTries int, gen func(i int) *gram.XGrammar) []*xGrammarRun {
	var out []*xGrammarRun
	for i := 0; len(out) < n && i < maxTries; i++ {
		xg := gen(i)
		if !xg.Productive() {
			c.Count("grammars_unproductive", 1)
			continue
		}
		name := fmt.Sprintf("g%04d", len(out))
		text := xg.Text(name)
		c.Note(map[string]string{"grammar.tm": text})
		c.Count("grammars_generated", 1)
		pkg, cerr, gerr := genrun.Generate(name, text)
		if cerr != nil {
			msg := cerr.Error()
			if strings.Contains(msg, "conflict") {
				c.Count("grammars_rejected_conflicts", 1)
			} else {
				c.Count("grammars_rejected_other", 1)
				c.Count("reject:"+fw.Skeleton(firstLine(msg)), 1)
			}
			continue
		}
		if gerr != nil {
			c.Violate("generate-failed/"+fw.Skeleton(gerr.Error()), "gen.Generate failed for a grammar that compiles:\n"+gerr.Error()+"\n"+text, map[string]string{"grammar.tm": text})
			continue
		}
		out = append(out, &xGrammarRun{xg: xg, pkg: pkg})
	}
	return out
}

type c02Meta struct {
	g      *xGrammarRun
	entry  int
	text   string
	toks   []int
	expect []genrun.Event
}

func eventsString(ev []genrun.Event) string {
	var b strings.Builder
	for _, e := range ev {
		fmt.Fprintf(&b, "%s[%d,%d] ", e.T, e.S, e.E)
	}
	return b.String()
}

// byteEvents maps token-space events to byte ranges.
func byteEvents(ev []gram.XEvent, pos [][2]int, textLen int) []genrun.Event {
	out := make([]genrun.Event, len(ev))
	for i, e := range ev {
		if e.S == e.E {
			o := textLen
			if e.S < len(pos) {
				o = pos[e.S][0]
			}
			out[i] = genrun.Event{T: e.Name, S: o, E: o}
		} else {
			out[i] = genrun.Event{T: e.Name, S: pos[e.S][0], E: pos[e.E-1][1]}
		}
	}
	return out
}

func classifyEventMismatch(want, got []genrun.Event) string {
	if len(want) != len(got) {
		if len(got) < len(want) {
			return "events/fewer-than-expected"
		}
		return "events/more-than-expected"
	}
	key := func(e genrun.Event) string { return fmt.Sprintf("%s/%d/%d", e.T, e.S, e.E) }
	a, b := make([]string, len(want)), make([]string, len(got))
	for i := range want {
		a[i], b[i] = key(want[i]), key(got[i])
	}
	sort.Strings(a)
	sort.Strings(b)
	same := true
	for i := range a {
		if a[i] != b[i] {
			same = false
		}
	}
	if same {
		return "events/same-nodes-different-order"
	}
	for i := range want {
		w, g := want[i], got[i]
		if w == g {
			continue
		}
		switch {
		case w.T != g.T:
			return "events/node-type-differs"
		case w.S == w.E:
			return "events/empty-node-position-differs"
		case w.S != g.S && w.E != g.E:
			return "events/range-start-and-end-differ"
		case w.S != g.S:
			return "events/range-start-differs"
		default:
			if g.E > w.E {
				return "events/range-end-too-far"
			}
			return "events/range-end-too-short"
		}
	}
	return "events/unknown"
}

func c02Run(c *fw.Ctx) {
	thorough := c.Tier == "thorough"
	n, nSent := 16, 40
	if thorough {
		n, nSent = 30, 120
	}
	r := c.R
	st := time.Now()
	gs := compileXCandidates(c, n, n*40, func(i int) *gram.XGrammar {
		var xg *gram.XGrammar
		if i == 0 {
			// one designed grammar per case guarantees the rarely generated shapes
			xg = gram.DesignedXGrammar(r, c.Case%2 == 0)
			c.Count("designed_grammars", 1)
		} else {
			xg = gram.RandXGrammar(r, gram.XGenOptions{FixWS: i%2 == 0})
		}
		optv := r.Intn(8)
		xg.Opts = tableOpts(optv)
		c.Count(fmt.Sprintf("generated_with_optvec_%d", optv), 1)
		return xg
	})
	stage(&st, "compile")
	if len(gs) == 0 {
		return
	}
	var pkgs []*genrun.Pkg
	for _, g := range gs {
		pkgs = append(pkgs, g.pkg)
	}
	_, bin := buildModule(c, pkgs, false)
	if bin == "" {
		return
	}
	stage(&st, "build")
	var jobs []genrun.Job
	var meta []c02Meta
	for _, g := range gs {
		if g.xg.Twins > 0 {
			c.Count("grammars_with_twin_lists", 1)
		}
		if g.xg.Designed {
			c.Count("designed_grammars_accepted", 1)
		}
		if g.xg.FixWS {
			c.Count("grammars_fixWhitespace", 1)
		} else {
			c.Count("grammars_plain_ranges", 1)
		}
		for e, in := range g.xg.Inputs {
			seen := map[string]bool{}
			for k := 0; k < nSent; k++ {
				budget := 2 + r.Intn(40)
				if k%10 == 9 {
					budget = 300
				}
				toks, ev := g.xg.Sample(r, in.NT, budget)
				key := fmt.Sprint(toks)
				if seen[key] || len(toks) > 3000 {
					continue
				}
				seen[key] = true
				text, pos := gram.RenderTokens(r, g.xg.Terms, toks)
				meta = append(meta, c02Meta{g: g, entry: e, text: text, toks: toks, expect: byteEvents(ev, pos, len(text))})
				jobs = append(jobs, genrun.Job{ID: len(jobs), Pkg: g.pkg.Name, Mode: "parse", Entry: e, Text: text, MaxEvents: 1 << 22})
			}
		}
	}
	if c.Case == 0 {
		c.Sample(map[string]any{"grammar": gs[0].pkg.Text, "sentence": meta[0].text, "expected_events": eventsString(meta[0].expect)})
	}
	res, err := genrun.Run(bin, c.WorkDir, jobs, 900)
	if err != nil {
		c.Violate("harness/runner/"+fw.Skeleton(err.Error()), err.Error(), nil)
		return
	}
	stage(&st, "run")
	for _, id := range append(append([]int(nil), res.Crashed...), res.CPUExceeded...) {
		m := meta[id]
		c.Violate("generated-parser/crash", fmt.Sprintf("runner died while parsing %q\n%s", m.text, res.Stderr), map[string]string{"grammar.tm": m.g.pkg.Text, "input.txt": m.text})
	}
	perGrammar := map[*xGrammarRun]int{}
	for id, m := range meta {
		t := res.Traces[id]
		if t == nil {
			continue
		}
		c.Eval(1)
		files := map[string]string{"grammar.tm": m.g.pkg.Text, "input.txt": m.text}
		desc := func() string {
			return fmt.Sprintf("fixWhitespace=%v input %s\ntext: %q\nexpected events: %s\nreported events: %s\nparser: ok=%v err=%q [%d,%d]",
				m.g.xg.FixWS, m.g.xg.Nonterms[m.g.xg.Inputs[m.entry].NT].Name, m.text, eventsString(m.expect), eventsString(t.Events), t.OK, t.Err, t.S, t.E)
		}
		if t.Panic != "" {
			c.Violate("generated-parser/panic/"+fw.Skeleton(firstLine(t.Panic)), desc()+"\n"+t.Panic, files)
			continue
		}
		if !t.OK {
			c.Violate("sentence-rejected", desc(), files)
			continue
		}
		equal := len(t.Events) == len(m.expect)
		if equal {
			for i := range m.expect {
				if t.Events[i] != m.expect[i] {
					equal = false
					break
				}
			}
		}
		if !equal {
			fx := "plain"
			if m.g.xg.FixWS {
				fx = "fixWhitespace"
			}
			c.Violate(classifyEventMismatch(m.expect, t.Events)+"/"+fx, desc(), files)
			continue
		}
		c.Count("sentences_with_identical_event_sequence", 1)
		c.Count("events_compared", int64(len(m.expect)))
		for _, e := range m.expect {
			if e.S == e.E {
				c.Count("empty_nodes_compared", 1)
			}
		}
		if len(m.expect) >= 3 {
			perGrammar[m.g]++
		}
	}
	for g, k := range perGrammar {
		if k >= 5 && len(g.xg.Types) >= 3 {
			c.Distinct(g.pkg.Text)
		}
	}
}

func init() {
	fw.Register(&fw.Check{
		ID:          "C02",
		Rule:        "each case: random extended grammars (guarded alternatives; optionals, nested choices, +/* lists with and without separators, nullable nonterminals; '-> Node' annotations on nonterminal definitions, on rules, on nested parts, on alternatives of nested choices, on list elements, on optional parts, on empty rules), half with fixWhitespace; without fixWhitespace every sequence ends with a token so that 'first to last token' is unambiguous. Grammars the compiler rejects (conflicts etc.) are discarded; the first candidate of every case is a designed grammar (twin lists differing only in the arrow name, a nonterminal nullable through an action inside an annotated rule, a no-eoi input with an in-rule arrow) that must compile. Sentences are sampled top-down from the extended grammar together with the expected events (post-order over rule applications, in-rule annotations inner-first/left-to-right then the rule-level node; node = first..last token of its yield, empty node at the following token), rendered with irregular whitespace, and the recorded listener sequence of the generated parser must be identical (type names and byte ranges). Grammar non-trivial/distinct: >=3 node types and >=5 sentences with >=3 events compared",
		Assumptions: []string{"the generated lexer tokenizes space-separated literals correctly (C11)", "conflict-freeness taken from the compiler (C03), hence the sampled derivation is the unique one"},
		Cases: func(tier string) int {
			if tier == "thorough" {
				return 32
			}
			return 6
		},
		Par:              8,
		Run:              func(c *fw.Ctx) { withHookMonitor(c, func() { c02Run(c) }) },
		CPUBudget:        900,
		MinNontrivial:    func(string) int { return 20 },
		RequiredCounters: []string{"designed_grammars_accepted", "grammars_with_twin_lists", "hook_compiles_monitored", "events_compared", "empty_nodes_compared", "grammars_fixWhitespace", "grammars_plain_ranges"},
	})
}
