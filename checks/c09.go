package checks

import (
	"fmt"
	"math/rand"
	"sort"
	"strings"
	"unicode"
	"unicode/utf8"

	"github.com/inspirer/textmapper/lex"
	"github.com/inspirer/textmapper/status"
	"verif/internal/fw"
	"verif/internal/rx"
)

// C09 – lexer tables implement longest match with rule priority.
//
// Workload: random rule sets (internal/rx ASTs printed in random spellings) are
// parsed with lex.ParseRegexp and compiled with lex.Compile; Tables.Scan is
// compared, for every start condition and many texts, with the Thompson-NFA
// lexer model of internal/rx.

type lxNode string

func (n lxNode) SourceRange() status.SourceRange {
	return status.SourceRange{Filename: string(n), Line: 1, Column: 1}
}

type lxResolver map[string]*lex.Pattern

func (r lxResolver) Resolve(name string) *lex.Pattern { return r[name] }

// lxSet is one generated rule set: the abstract rules and their concrete spelling.
type lxSet struct {
	Mode     rx.Mode
	Rules    []rx.Rule
	Defs     rx.Defs
	DefNames []string
	Pats     []string          // spelling of each rule
	DefPats  map[string]string // spelling of each named pattern
	NumSC    int
	Backtrk  bool // allowBacktracking
	Tags     map[string]bool
}

func (s *lxSet) describe() string {
	var b strings.Builder
	fmt.Fprintf(&b, "mode: bytes=%v fold=%v allowBacktracking=%v startConditions=%d\n", s.Mode.Bytes, s.Mode.Fold, s.Backtrk, s.NumSC)
	for _, n := range s.DefNames {
		fmt.Fprintf(&b, "pattern %s = /%s/\n", n, s.DefPats[n])
	}
	for i, r := range s.Rules {
		fmt.Fprintf(&b, "rule %d: /%s/ action=%d prec=%d sc=%v\n", i, s.Pats[i], r.Action, r.Prec, r.SCs)
	}
	return b.String()
}

// lxBuild parses the spelled patterns with the real parser and returns lex rules.
func lxBuild(s *lxSet) ([]*lex.Rule, error) {
	opts := lex.CharsetOptions{Fold: s.Mode.Fold, ScanBytes: s.Mode.Bytes}
	res := lxResolver{}
	for _, n := range s.DefNames {
		re, err := lex.ParseRegexp(s.DefPats[n], opts)
		if err != nil {
			return nil, fmt.Errorf("pattern %s /%s/: %w", n, s.DefPats[n], err)
		}
		res[n] = &lex.Pattern{Name: n, RE: re, Text: s.DefPats[n], Origin: lxNode("pattern " + n)}
	}
	var out []*lex.Rule
	for i, r := range s.Rules {
		re, err := lex.ParseRegexp(s.Pats[i], opts)
		if err != nil {
			return nil, fmt.Errorf("rule %d /%s/: %w", i, s.Pats[i], err)
		}
		name := fmt.Sprintf("rule%d", i)
		out = append(out, &lex.Rule{
			Pattern:         &lex.Pattern{Name: name, RE: re, Text: s.Pats[i], Origin: lxNode(name)},
			Resolver:        res,
			StartConditions: append([]int(nil), r.SCs...),
			Precedence:      r.Prec,
			Action:          r.Action,
			Origin:          lxNode(name),
		})
	}
	return out, nil
}

// lxSpell (re)spells all patterns of a set.
func lxSpell(r *rand.Rand, s *lxSet) {
	p := &rx.Printer{R: r, Mode: s.Mode}
	s.DefPats = map[string]string{}
	for _, n := range s.DefNames {
		s.DefPats[n] = p.Print(s.Defs[n])
	}
	s.Pats = s.Pats[:0]
	for _, rule := range s.Rules {
		s.Pats = append(s.Pats, p.Print(rule.RE))
	}
}

// lxEmptyPattern is a pattern that matches (only or also) the empty string.
type lxEmptyPattern struct {
	Pat  string
	Defs map[string]string
}

// lxEmptyPatterns: rules that accept empty text in every spelling of "nothing" - an empty
// group, a zero repetition, an empty named pattern - and the usual nullable shapes. A lexer with
// such a rule could return tokens of length zero, so either lex.Compile rejects the rule or
// no scan may ever return an empty token.
var lxEmptyPatterns = []lxEmptyPattern{
	{Pat: ``}, {Pat: `()`}, {Pat: `(?:)`}, {Pat: `(())`}, {Pat: `()()`}, {Pat: `x{0}`}, {Pat: `x{0,0}`}, {Pat: `[a-z]{0}()`}, {Pat: `(ab|c){0}`},
	{Pat: `(?i)`}, {Pat: `(?i:)`}, {Pat: `\Q\E`},
	{Pat: `{opt}`, Defs: map[string]string{"opt": `()`}}, {Pat: `({opt})`, Defs: map[string]string{"opt": `(){0}`}}, {Pat: `{opt}{opt}`, Defs: map[string]string{"opt": `x{0}`}},
	{Pat: `{a}`, Defs: map[string]string{"a": `{b}`, "b": `()`}},
	// shapes that keep an instruction: rejected through another path
	{Pat: `(|)`}, {Pat: `a*`}, {Pat: `a?`}, {Pat: `()*`}, {Pat: `(a|)`}, {Pat: `x{0,2}`}, {Pat: `(a*)+`}, {Pat: `{opt}?`, Defs: map[string]string{"opt": `a`}},
}

// c09EmptyRules: every empty pattern next to an ordinary rule, in all four modes.
func c09EmptyRules(c *fw.Ctx) {
	for _, ep := range lxEmptyPatterns {
		for mode := 0; mode < 4; mode++ {
			m := rx.Mode{Bytes: mode&1 != 0, Fold: mode&2 != 0}
			opts := lex.CharsetOptions{Fold: m.Fold, ScanBytes: m.Bytes}
			desc := fmt.Sprintf("mode %+v\nrule 0: /%s/ action=2\nrule 1: /[a-z]+/ action=3\npatterns: %v\n", m, ep.Pat, ep.Defs)
			files := map[string]string{"rules.txt": desc}
			res := lxResolver{}
			var names []string
			for n := range ep.Defs {
				names = append(names, n)
			}
			sort.Strings(names)
			bad := false
			for _, n := range names {
				re, err := lex.ParseRegexp(ep.Defs[n], opts)
				if err != nil {
					c.Violate("parse/valid-pattern-rejected/"+fw.Skeleton(err.Error()), err.Error()+"\n"+desc, files)
					bad = true
					break
				}
				res[n] = &lex.Pattern{Name: n, RE: re, Text: ep.Defs[n], Origin: lxNode(n)}
			}
			if bad {
				continue
			}
			var rules []*lex.Rule
			for i, pat := range []string{ep.Pat, "[a-z]+"} {
				re, err := lex.ParseRegexp(pat, opts)
				if err != nil {
					c.Violate("parse/valid-pattern-rejected/"+fw.Skeleton(err.Error()), err.Error()+"\n"+desc, files)
					bad = true
					break
				}
				name := fmt.Sprintf("rule%d", i)
				rules = append(rules, &lex.Rule{Pattern: &lex.Pattern{Name: name, RE: re, Text: pat, Origin: lxNode(name)}, Resolver: res,
					StartConditions: []int{0}, Action: 2 + i, Origin: lxNode(name)})
			}
			if bad {
				continue
			}
			c.Note(files)
			var tables *lex.Tables
			var cerr error
			if !c.Guard("compile", files, func() { tables, cerr = lex.Compile(rules, m.Bytes, true) }) {
				continue
			}
			c.Count("empty_pattern_rule_sets", 1)
			if cerr != nil {
				c.Count("empty_pattern_rule_sets_rejected", 1)
				continue
			}
			c.Count("empty_pattern_rule_sets_compiled", 1)
			for _, text := range []string{"", "ab", "1", "ab 1", " ", "x"} {
				size, action := tables.Scan(0, text)
				c.Eval(1)
				if size == 0 && action != 0 {
					c.Violate("scan/empty-token-returned", fmt.Sprintf("text %q: Tables.Scan = (size 0, action %d): a token of length zero (lex.Compile accepted a rule that matches the empty string)\n%s", text, action, desc), files)
					break
				}
			}
		}
	}
}

func lxTail(g *rx.Gen, r *rand.Rand) *rx.Node {
	n := 2 + r.Intn(2)
	var subs []*rx.Node
	for i := 0; i < n; i++ {
		if r.Intn(3) == 0 {
			subs = append(subs, rx.Cls(g.Class()))
		} else {
			subs = append(subs, rx.Ch(g.Alpha[r.Intn(len(g.Alpha))]))
		}
	}
	return rx.Cat(subs...)
}

// lxPropNames: the \p{..} names used inside random rule sets. Scripts that have a
// unicode.FoldScript table are left to C10, which probes every name point by
// point (what such a script denotes is judged there, under its own signature).
func lxPropNames() []string {
	var out []string
	for _, n := range rx.SomeProps {
		if unicode.FoldScript[n] == nil {
			out = append(out, n)
		}
	}
	return out
}

// lxGenSet draws a rule set. byteOnly forces byte mode with a single start
// condition (used by C24).
func lxGenSet(r *rand.Rand, byteOnly bool) *lxSet {
	s := &lxSet{Tags: map[string]bool{}, Defs: rx.Defs{}}
	s.Mode = rx.Mode{Bytes: byteOnly || r.Intn(10) < 3, Fold: r.Intn(4) == 0}
	s.Backtrk = r.Intn(7) != 0
	alpha := rx.PickAlphabet(r, s.Mode)
	if s.Mode.Bytes {
		// see rx.ByteFoldTrap: probed separately in C10
		keep := alpha[:0]
		for _, c := range alpha {
			if !rx.ByteFoldTrap(c) {
				keep = append(keep, c)
			}
		}
		alpha = keep
	}
	g := &rx.Gen{R: r, Mode: s.Mode, Alpha: alpha, Defs: s.Defs, Props: r.Intn(3) == 0, FoldGroup: r.Intn(4) == 0,
		Quote: r.Intn(5) == 0, EmptyBits: r.Intn(5) == 0, MaxRep: 4, ExactOnly: true, PropNames: lxPropNames()}
	withEOI := !byteOnly && r.Intn(7) == 0
	if r.Intn(3) == 0 {
		nd := 1 + r.Intn(2)
		for i := 0; i < nd; i++ {
			name := fmt.Sprintf("p%d", i)
			d := g.Rule(1 + r.Intn(4))
			s.Defs[name] = d
			s.DefNames = append(s.DefNames, name)
			g.Names = append(g.Names, name)
		}
		s.Tags["named"] = true
	}
	s.NumSC = 1
	if !byteOnly {
		switch k := r.Intn(20); {
		case k < 5:
			s.NumSC = 2
		case k < 8:
			s.NumSC = 3
		}
	}
	nRules := 1 + r.Intn(8)
	precScheme := r.Intn(4) // 0,1: distinct, 2: small random, 3: all equal
	for i := 0; i < nRules; i++ {
		var re *rx.Node
		prec := 0
		for try := 0; ; try++ {
			g.MaxRep = 4
			switch k := r.Intn(20); {
			case k < 7:
				re = g.Rule(2 + r.Intn(9))
			case k < 10: // keyword
				var sb []*rx.Node
				for j := 2 + r.Intn(5); j > 0; j-- {
					sb = append(sb, rx.Ch(alpha[r.Intn(len(alpha))]))
				}
				re = rx.Cat(sb...)
				prec = 1
			case k < 12: // identifier-like
				g.Reset()
				re = rx.Cat(rx.Cls(g.Class()), rx.Rep(rx.Cls(g.Class()), 0, -1))
			case k < 15 && len(s.Rules) > 0: // an earlier rule plus a tail of at least two symbols: forces backtracking
				g.Reset()
				base := s.Rules[r.Intn(len(s.Rules))].RE
				if rx.Has(base, s.Defs, rx.KEOI) {
					continue
				}
				re = rx.Cat(base, lxTail(g, r))
				s.Tags["forced_backtracking_shape"] = true
			case k < 16: // aaaa next to a
				g.Reset()
				c := rx.Ch(alpha[r.Intn(len(alpha))])
				n := 2 + r.Intn(4)
				re = rx.Rep(c, n, n)
				if r.Intn(2) == 0 {
					re = rx.Cat(rx.Rep(c, n, n), rx.Ch(alpha[r.Intn(len(alpha))]))
				}
			case k < 18: // nested repetition bounds up to 16
				g.Reset()
				a := 1 + r.Intn(4)
				b := a + r.Intn(17-a)
				c := r.Intn(3)
				d := c + r.Intn(5)
				if d == 0 {
					d = 1
				}
				if r.Intn(2) == 0 {
					a, b, c, d = c, d, a, b
				}
				var atom *rx.Node
				if r.Intn(2) == 0 {
					atom = rx.Ch(alpha[r.Intn(len(alpha))])
				} else {
					atom = rx.Cls(g.Class())
				}
				re = rx.Rep(rx.Rep(atom, a, b), c, d)
				if r.Intn(2) == 0 {
					re = rx.Cat(re, rx.Ch(alpha[r.Intn(len(alpha))]))
				}
				s.Tags["nested_bounds"] = true
			default:
				g.MaxRep = 16
				re = g.Rule(1 + r.Intn(5))
			}
			if re == nil {
				continue
			}
			if withEOI && r.Intn(3) == 0 && !rx.Has(re, s.Defs, rx.KEOI) {
				eoi := &rx.Node{Kind: rx.KEOI}
				switch r.Intn(3) {
				case 0:
					re = rx.Cat(re, eoi)
				case 1:
					re = rx.Cat(re, rx.Alt(rx.Ch('\n'), eoi))
				default:
					re = eoi
				}
				s.Tags["eoi"] = true
			}
			if rx.Nullable(re, s.Defs) && (try < 8 && r.Intn(12) != 0) {
				continue
			}
			if rx.Count(re, s.Defs) > 400 {
				continue
			}
			break
		}
		switch precScheme {
		case 0, 1:
			prec = nRules - i
			if r.Intn(2) == 0 {
				prec = -i
			}
		case 2:
			prec += r.Intn(4) - 1
		}
		action := 2 + i
		if i > 0 && r.Intn(10) == 0 {
			action = s.Rules[r.Intn(i)].Action
			s.Tags["shared_action"] = true
		}
		var scs []int
		for sc := 0; sc < s.NumSC; sc++ {
			if r.Intn(3) != 0 {
				scs = append(scs, sc)
			}
		}
		if len(scs) == 0 {
			scs = []int{r.Intn(s.NumSC)}
		}
		s.Rules = append(s.Rules, rx.Rule{RE: re, Prec: prec, Action: action, SCs: scs})
	}
	// the highest start condition must be used by some rule (lex.Compile sizes its map from the rules)
	maxSC := 0
	for _, rule := range s.Rules {
		for _, sc := range rule.SCs {
			if sc > maxSC {
				maxSC = sc
			}
		}
	}
	s.NumSC = maxSC + 1
	if s.Mode.Bytes {
		s.Tags["bytes"] = true
	}
	if s.Mode.Fold || g.FoldGroup {
		for _, rule := range s.Rules {
			if s.Mode.Fold || rx.Has(rule.RE, s.Defs, rx.KFold) {
				s.Tags["fold"] = true
			}
		}
	}
	if s.NumSC > 1 {
		s.Tags["multi_sc"] = true
	}
	if !s.Backtrk {
		s.Tags["nonbacktracking"] = true
	}
	lxSpell(r, s)
	return s
}

var lxBadUTF8 = []string{"\xff", "\xc3", "\xed\xa0\x80", "\xc0\x80", "\xf4\x90\x80\x80", "\xe2\x82", "\x80"}

// lxTexts builds the text list for a rule set.
func lxTexts(r *rand.Rand, s *lxSet, n int, exhLen int) (texts []string, badUTF8 int) {
	sm := &rx.Sampler{R: r, Mode: s.Mode, Defs: s.Defs}
	pts := map[rune]bool{}
	for _, rule := range s.Rules {
		sm.Points(rule.RE, s.Mode.Fold, pts, 0)
	}
	all := rx.SortedPoints(pts)
	var syms []string
	for _, c := range all {
		if !s.Mode.Bytes && (c >= 0xd800 && c <= 0xdfff) {
			continue
		}
		syms = append(syms, rx.Encode(c, s.Mode.Bytes))
	}
	if len(syms) == 0 {
		syms = []string{"a"}
	}
	r.Shuffle(len(syms), func(i, j int) { syms[i], syms[j] = syms[j], syms[i] })
	if len(syms) > 14 {
		syms = syms[:14]
	}
	seen := map[string]bool{}
	add := func(t string) {
		if !seen[t] && len(t) < 4000 {
			seen[t] = true
			texts = append(texts, t)
		}
	}
	add("")
	// exhaustive short strings over three symbols
	sub := syms
	if len(sub) > 3 {
		sub = sub[:3]
	}
	var rec func(cur string, depth int)
	rec = func(cur string, depth int) {
		if depth > 0 {
			add(cur)
		}
		if depth == exhLen {
			return
		}
		for _, x := range sub {
			rec(cur+x, depth+1)
		}
	}
	rec("", 0)
	// sentences of the rules, their prefixes, extensions and concatenations
	var sents []string
	for k := 0; k < 4; k++ {
		for _, rule := range s.Rules {
			var b strings.Builder
			if sm.Sentence(&b, rule.RE, s.Mode.Fold, 0) && b.Len() > 0 && b.Len() < 400 {
				sents = append(sents, b.String())
			}
		}
	}
	for _, t := range sents {
		add(t)
		add(t + syms[r.Intn(len(syms))])
		add(t + sents[r.Intn(len(sents))])
		if len(t) > 1 {
			add(t[:1+r.Intn(len(t)-1)])
		}
		bs := []byte(t)
		bs[r.Intn(len(bs))] = syms[r.Intn(len(syms))][0]
		add(string(bs))
		add(t + t + t)
	}
	// random strings
	for tries := 0; len(texts) < n && tries < 3*n; tries++ {
		var b strings.Builder
		for k := 1 + r.Intn(12); k > 0; k-- {
			switch {
			case !s.Mode.Bytes && r.Intn(25) == 0:
				b.WriteString(lxBadUTF8[r.Intn(len(lxBadUTF8))])
			case len(sents) > 0 && r.Intn(6) == 0:
				b.WriteString(sents[r.Intn(len(sents))])
			default:
				b.WriteString(syms[r.Intn(len(syms))])
			}
		}
		before := len(texts)
		add(b.String())
		if before == len(texts) && r.Intn(4) == 0 {
			add(b.String() + "\x00")
		}
	}
	if len(texts) > n {
		// keep the fixed part, trim the rest deterministically
		texts = texts[:n]
	}
	for _, t := range texts {
		if !s.Mode.Bytes && !utf8.ValidString(t) {
			badUTF8++
		}
	}
	return texts, badUTF8
}

func lxErrKinds(err error) map[string]bool {
	kinds := map[string]bool{}
	if err == nil {
		return kinds
	}
	for _, line := range strings.Split(err.Error(), "\n") {
		switch {
		case strings.Contains(line, "accepts empty text"):
			kinds["empty"] = true
		case strings.Contains(line, "two rules are identical"):
			kinds["identical"] = true
		case strings.Contains(line, "Needs backtracking"):
			kinds["backtracking"] = true
		case strings.HasPrefix(line, "\t") || strings.HasPrefix(line, "Consider removing") || strings.TrimSpace(line) == "":
			// continuation lines of the backtracking message
		default:
			kinds["other"] = true
		}
	}
	return kinds
}

// c09Sig classifies a disagreement between Tables.Scan and the model.
func c09Sig(s *lxSet, want rx.Result, wantAction, gotSize, gotAction int, validActions map[int]bool) string {
	mode := "runes"
	if s.Mode.Bytes {
		mode = "bytes"
	}
	if want.EOISteps > 0 {
		// the end-of-input pseudo symbol was consumed by a live rule
		if !validActions[gotAction] {
			if gotAction < 0 {
				return "scan/eoi-transition-taken/negative-action-returned"
			}
			return "scan/eoi-transition-taken/unknown-action-returned"
		}
		return "scan/eoi-transition-taken/other"
	}
	if !validActions[gotAction] {
		return "scan/unknown-action-returned/" + mode
	}
	if gotSize == 0 && gotAction != 0 {
		// a token of length zero (the property speaks of non-empty prefixes only)
		return "scan/empty-token-returned"
	}
	kind := "match-match"
	switch {
	case want.Rule < 0 && gotAction == 0:
		kind = "invalid-invalid"
	case want.Rule < 0:
		kind = "want-invalid-got-match"
	case gotAction == 0:
		kind = "want-match-got-invalid"
	}
	size := "size="
	if gotSize < want.Size {
		size = "size-shorter"
	} else if gotSize > want.Size {
		size = "size-longer"
	}
	act := "action="
	if gotAction != wantAction {
		act = "action-differs"
	}
	bt := "nobt"
	if want.Backtracked {
		bt = "bt"
	}
	return fmt.Sprintf("scan/%s/%s/%s/%s/%s", kind, size, act, bt, mode)
}

func c09RuleSet(c *fw.Ctx, r *rand.Rand, nTexts, exhLen int) {
	s := lxGenSet(r, false)
	desc := s.describe()
	c.Count("rulesets", 1)
	tags := make([]string, 0, len(s.Tags))
	for t := range s.Tags {
		tags = append(tags, t)
	}
	sort.Strings(tags)
	for _, t := range tags {
		c.Count("rulesets_"+t, 1)
	}
	files := map[string]string{"rules.txt": desc}
	c.Note(files)

	model := rx.NewLexer(s.Mode, s.Rules, s.Defs)
	if model.Ambiguous() {
		c.Count("rulesets_skipped_inexact_class", 1)
		return
	}
	if model.States() > 3000 {
		c.Count("rulesets_skipped_large", 1)
		return
	}
	rules, perr := lxBuild(s)
	if perr != nil {
		msg := perr.Error()
		if i := strings.Index(msg, "broken regexp"); i >= 0 {
			msg = msg[i:]
		}
		c.Violate("parse/valid-pattern-rejected/"+fw.Skeleton(msg), perr.Error()+"\n"+desc, files)
		return
	}
	var tables *lex.Tables
	var cerr error
	if !c.Guard("compile", files, func() { tables, cerr = lex.Compile(rules, s.Mode.Bytes, s.Backtrk) }) {
		return
	}
	kinds := lxErrKinds(cerr)
	nullable := false
	for _, rule := range s.Rules {
		if rx.Nullable(rule.RE, s.Defs) {
			nullable = true
		}
	}
	texts, bad := lxTexts(r, s, nTexts, exhLen)
	c.Count("texts_invalid_utf8", int64(bad))

	// model pass: results and ambiguity witnesses
	type probe struct {
		sc   int
		text string
		res  rx.Result
	}
	var probes []probe
	var tie *probe
	for ti, t := range texts {
		for sc := 0; sc < s.NumSC; sc++ {
			if s.NumSC > 1 && ti%s.NumSC != sc && ti > 40 {
				continue // beyond the first texts, spread texts over the start conditions
			}
			res := model.Scan(sc, t)
			probes = append(probes, probe{sc, t, res})
			if res.HasTie && tie == nil {
				p := probes[len(probes)-1]
				tie = &p
			}
		}
	}
	if tie != nil {
		c.Count("ambiguity_witnesses", 1)
	}
	if cerr != nil {
		c.Count("compile_rejected", 1)
		ks := make([]string, 0, len(kinds))
		for k := range kinds {
			ks = append(ks, k)
		}
		sort.Strings(ks)
		for _, k := range ks {
			c.Count("compile_rejected_"+k, 1)
		}
		if kinds["empty"] != nullable {
			c.Count("compile_empty_text_verdict_differs_from_model", 1)
		}
		if kinds["identical"] && tie != nil {
			c.Count("ambiguity_rejected_with_witness", 1)
			c.Distinct("rejected\x00" + desc)
		}
		if kinds["other"] {
			c.Count("compile_rejected_unexpected_message", 1)
			c.Sample(map[string]any{"rules": desc, "compile_error": cerr.Error()})
		}
		c.Eval(1)
		return
	}
	c.Count("compiled_ok", 1)
	if nullable {
		c.Count("compiled_with_nullable_rule", 1)
	}
	if tie != nil {
		a, b := tie.res.Tie[0], tie.res.Tie[1]
		c.Violate("compile/ambiguous-rules-accepted",
			fmt.Sprintf("rules %d and %d have the same precedence, different actions and both match a prefix of %q in start condition %d, but lex.Compile reported no error\n%s", a, b, tie.text, tie.sc, desc), files)
		return
	}
	if len(tables.Backtrack) > 0 {
		c.Count("tables_with_backtrack", 1)
	}
	if len(tables.StateMap) != s.NumSC {
		c.Violate("compile/state-map-size", fmt.Sprintf("StateMap has %d entries for %d start conditions\n%s", len(tables.StateMap), s.NumSC, desc), files)
		return
	}
	valid := map[int]bool{0: true}
	for _, rule := range s.Rules {
		valid[rule.Action] = true
	}
	outcomes := map[int]bool{}
	for _, p := range probes {
		wantAction := 0
		if p.res.Rule >= 0 {
			wantAction = s.Rules[p.res.Rule].Action
		}
		var size, action int
		pf := map[string]string{"rules.txt": desc, "text.bin": p.text}
		if !c.Guard("scan", pf, func() { size, action = tables.Scan(p.sc, p.text) }) {
			return
		}
		c.Eval(1)
		outcomes[wantAction] = true
		switch {
		case p.res.Rule < 0:
			c.Count("scans_invalid_token", 1)
			if p.res.Size > 0 {
				c.Count("scans_invalid_token_nonempty_extent", 1)
			}
		default:
			c.Count("scans_match", 1)
		}
		if p.res.Backtracked && p.res.Rule >= 0 {
			c.Count("scans_fallback_to_earlier_accept", 1)
		}
		if p.res.EOISteps > 0 {
			c.Count("scans_eoi_transition_taken", 1)
		}
		if size != p.res.Size || action != wantAction {
			sig := c09Sig(s, p.res, wantAction, size, action, valid)
			c.Violate(sig, fmt.Sprintf("start condition %d, text %q:\n  Tables.Scan = (size %d, action %d)\n  model       = (size %d, action %d) [rule %d, longest live prefix %d, eoi symbols consumed %d]\n%s",
				p.sc, p.text, size, action, p.res.Size, wantAction, p.res.Rule, p.res.Live, p.res.EOISteps, desc), pf)
		}
	}
	if len(outcomes) >= 2 {
		c.Distinct(desc)
	}
	if r.Intn(40) == 0 {
		c.Sample(map[string]any{"rules": desc, "texts": len(texts)})
	}
}

func init() {
	fw.Register(&fw.Check{
		ID: "C09",
		Rule: "a case is a batch of random rule sets: 1-8 rules over a small shared alphabet (ASCII, BMP, astral characters; bytes >= 0x80 in byte mode), 1-3 start conditions, " +
			"precedences (distinct / random / all equal), shared actions, named patterns, {eoi} tails, (?i) groups and the fold option, byte mode, keyword/identifier shapes, " +
			"rules extended by a 2-3 symbol tail and a{n} next to a (forced backtracking), nested repetition bounds up to 16, nullable rules now and then; " +
			"every pattern is spelled at random (escapes \\x \\u \\U \\x{} octal, classes, quantifier forms, group forms) and parsed by lex.ParseRegexp, then lex.Compile (with and without allowBacktracking). " +
			"Texts per rule set: the empty text, all strings up to length 4 (thorough 5) over three symbols taken from the class boundaries of the rules, sentences sampled from the rules with " +
			"prefixes/extensions/concatenations/byte mutations, random strings over the boundary symbols with invalid UTF-8 in rune mode; each text is scanned in the start conditions. " +
			"Oracle: Thompson NFA simulation (internal/rx) giving the longest non-empty match, highest precedence, fallback to the last accept, invalid token = longest live prefix; " +
			"a prefix matched by two top-precedence rules with different actions is an ambiguity witness and the set must have been rejected. " +
			"A rule set is non-trivial when it compiled and its texts produced at least two different outcomes (or it was rejected with an ambiguity witness in hand)",
		Assumptions: []string{
			"the reference NFA matcher and class denotations of internal/rx (self-checked against a position-set evaluator and unicode.Is in its unit tests)",
			"invalid UTF-8 in rune mode is read as U+FFFD of width 1 (Go's utf8 convention), {eoi} is a sticky zero-width symbol after the last byte",
			"rule sets whose classes have an inexact documented meaning (case folding of predefined classes / of subtractions) are not generated",
			"rule sets rejected for other reasons than the ones the oracle can justify are only counted",
		},
		Cases: func(tier string) int {
			if tier == "thorough" {
				return 1600
			}
			return 96
		},
		Run: func(c *fw.Ctx) {
			n, texts, exh := 16, 300, 4
			if c.Tier == "thorough" {
				n, texts, exh = 25, 1000, 5
			}
			if c.Case == 0 {
				c09EmptyRules(c)
			}
			for i := 0; i < n; i++ {
				c09RuleSet(c, c.SubRand(i), texts, exh)
			}
		},
		MinNontrivial: func(tier string) int {
			if tier == "thorough" {
				return 8000
			}
			return 300
		},
		RequiredCounters: []string{"compiled_ok", "scans_match", "scans_invalid_token", "scans_invalid_token_nonempty_extent", "scans_fallback_to_earlier_accept",
			"tables_with_backtrack", "ambiguity_rejected_with_witness", "rulesets_bytes", "rulesets_fold", "rulesets_multi_sc", "rulesets_named",
			"rulesets_nested_bounds", "rulesets_nonbacktracking", "texts_invalid_utf8", "empty_pattern_rule_sets_rejected"},
		CPUBudget: 600,
	})
}
