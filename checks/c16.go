package checks

import (
	"fmt"
	"sort"
	"strings"
	"time"

	"verif/internal/actgram"
	"verif/internal/fw"
	"verif/internal/genrun"
	"verif/internal/gram"
)

// C16 – semantic action references bind to the right symbols.

type c16Grammar struct {
	ag  *actgram.Grammar
	pkg *genrun.Pkg
}

type c16Meta struct {
	g      *c16Grammar
	entry  int
	text   string
	expect []*actgram.Line
	val    string
}

func c16Compile(c *fw.Ctx, n, maxTries int) []*c16Grammar {
	var out []*c16Grammar
	for i := 0; len(out) < n && i < maxTries; i++ {
		ag := actgram.Rand(c.R, actgram.Options{})
		if !ag.Productive() {
			c.Count("grammars_unproductive", 1)
			continue
		}
		name := fmt.Sprintf("g%04d", len(out))
		text := ag.Text(name)
		c.Note(map[string]string{"grammar.tm": text})
		c.Count("grammars_generated", 1)
		var pkg *genrun.Pkg
		var cerr, gerr error
		pfx := "compile"
		if ag.HasFlag {
			pfx = "templated-grammar/compile"
		}
		if !c.Guard(pfx, map[string]string{"grammar.tm": text}, func() { pkg, cerr, gerr = genrun.Generate(name, text) }) {
			continue
		}
		if cerr != nil {
			msg := cerr.Error()
			if strings.Contains(msg, "conflict") {
				c.Count("grammars_rejected_conflicts", 1)
			} else {
				c.Count("grammars_rejected_other", 1)
				c.Count("reject:"+fw.Skeleton(firstLine(stripPos(msg))), 1)
			}
			continue
		}
		if gerr != nil {
			// a reference form the generator refuses: counted, not failed
			c.Count("grammars_rejected_at_generation", 1)
			c.Count("genreject:"+fw.Skeleton(lastColon(gerr.Error())), 1)
			continue
		}
		pkg.Extra = map[string]string{"zz_vals.go": actgram.ExtraSource(name)}
		out = append(out, &c16Grammar{ag: ag, pkg: pkg})
	}
	return out
}

// stripPos removes a leading "file:line:col: ".
func stripPos(msg string) string {
	parts := strings.SplitN(msg, ": ", 2)
	if len(parts) == 2 && strings.Contains(parts[0], ".tm:") {
		return parts[1]
	}
	return msg
}

func lastColon(msg string) string {
	msg = firstLine(msg)
	if i := strings.Index(msg, ".tm:"); i >= 0 {
		rest := msg[i+4:]
		if j := strings.Index(rest, ": "); j >= 0 {
			msg = rest[j+2:]
		}
	}
	// drop quoted names
	var b strings.Builder
	inq := false
	for _, r := range msg {
		if r == '"' {
			inq = !inq
			b.WriteRune(r)
			continue
		}
		if !inq {
			b.WriteRune(r)
		}
	}
	return b.String()
}

func c16Classify(l *actgram.Line, got []string) string {
	ctx := "mid-rule"
	if l.Cmd.End {
		ctx = "end-of-rule"
	}
	if l.Cmd.InList {
		ctx += "/list-body"
	}
	if len(got) != len(l.Values) {
		return "log-line/field-count-differs/" + ctx
	}
	for i := range got {
		if got[i] == l.Values[i] {
			continue
		}
		it := l.Cmd.Items[i]
		want := "present"
		if !l.Present[i] {
			want = "absent"
		}
		kind := "other-value"
		switch got[i] {
		case "<nil>":
			kind = "nil"
		case "-1":
			kind = "-1"
		case "<nilval>", "":
			kind = "zero-value"
		}
		return fmt.Sprintf("ref-mismatch/%s/%s/want-%s/got-%s", it.Form, ctx, want, kind)
	}
	return "log-line/unknown"
}

func c16Run(c *fw.Ctx) {
	thorough := c.Tier == "thorough"
	n, nSent := 10, 80
	if thorough {
		n, nSent = 15, 200
	}
	r := c.R
	st := time.Now()
	gs := c16Compile(c, n, n*60)
	stage(&st, "compile")
	if len(gs) == 0 {
		return
	}
	var pkgs []*genrun.Pkg
	for _, g := range gs {
		pkgs = append(pkgs, g.pkg)
	}
	_, bin := buildModule(c, pkgs, false)
	if bin == "" {
		return
	}
	stage(&st, "build")
	var jobs []genrun.Job
	var meta []c16Meta
	for _, g := range gs {
		terms := make([]string, len(g.ag.Terms))
		for i, t := range g.ag.Terms {
			terms[i] = t.Text
		}
		var forms []string
		for f := range g.ag.Forms {
			forms = append(forms, f)
		}
		sort.Strings(forms)
		if g.ag.HasFlag {
			c.Count("grammars_with_template_flag", 1)
		}
		for _, f := range forms {
			c.Count("generated:"+f, int64(g.ag.Forms[f]))
		}
		for e, in := range g.ag.Inputs {
			seen := map[string]bool{}
			for k := 0; k < nSent; k++ {
				budget := 2 + r.Intn(30)
				if k%10 == 9 {
					budget = 150
				}
				toks, inst := g.ag.Sample(r, in, budget)
				key := fmt.Sprint(toks)
				if seen[key] || len(toks) > 2000 {
					continue
				}
				seen[key] = true
				text, pos := gram.RenderTokens(r, terms, toks)
				lines, val := g.ag.Expect(inst, pos, len(text))
				meta = append(meta, c16Meta{g: g, entry: e, text: text, expect: lines, val: val})
				jobs = append(jobs, genrun.Job{ID: len(jobs), Pkg: g.pkg.Name, Mode: "parse", Entry: e, Text: text})
			}
		}
	}
	if c.Case == 0 && len(meta) > 0 {
		var ls []string
		for _, l := range meta[0].expect {
			ls = append(ls, l.String())
		}
		c.Sample(map[string]any{"grammar": gs[0].pkg.Text, "sentence": meta[0].text, "expected_log": ls, "expected_value": meta[0].val})
	}
	res, err := genrun.Run(bin, c.WorkDir, jobs, 900)
	if err != nil {
		c.Violate("harness/runner/"+fw.Skeleton(err.Error()), err.Error(), nil)
		return
	}
	stage(&st, "run")
	for _, id := range append(append([]int(nil), res.Crashed...), res.CPUExceeded...) {
		m := meta[id]
		c.Violate("generated-parser/crash", fmt.Sprintf("runner died while parsing %q\n%s", m.text, res.Stderr), map[string]string{"grammar.tm": m.g.pkg.Text, "input.txt": m.text})
	}
	type gstat struct {
		lines int
		forms map[string]bool
	}
	stats := map[*c16Grammar]*gstat{}
	for id, m := range meta {
		t := res.Traces[id]
		if t == nil {
			continue
		}
		c.Eval(1)
		files := map[string]string{"grammar.tm": m.g.pkg.Text, "input.txt": m.text}
		var want []string
		for _, l := range m.expect {
			want = append(want, l.String())
		}
		desc := func() string {
			return fmt.Sprintf("input %s\ntext: %q\nexpected log:\n  %s\nactual log:\n  %s\nexpected value: %s\nactual value:   %s\nparser: ok=%v err=%q [%d,%d]",
				m.g.ag.Nonterms[m.g.ag.Inputs[m.entry]].Name, m.text, strings.Join(want, "\n  "), strings.Join(t.Log, "\n  "), m.val, t.Val, t.OK, t.Err, t.S, t.E)
		}
		if t.Panic != "" {
			c.Violate("generated-parser/panic/"+fw.Skeleton(firstLine(t.Panic)), desc()+"\n"+t.Panic, files)
			continue
		}
		if !t.OK {
			c.Violate("sentence-rejected", desc(), files)
			continue
		}
		bad := false
		for i := 0; i < len(want) || i < len(t.Log); i++ {
			if i >= len(t.Log) {
				c.Violate("log/fewer-lines-than-expected", desc(), files)
				bad = true
				break
			}
			if i >= len(want) {
				c.Violate("log/more-lines-than-expected", desc(), files)
				bad = true
				break
			}
			if want[i] == t.Log[i] {
				continue
			}
			bad = true
			parts := strings.Split(t.Log[i], "|")
			if parts[0] != fmt.Sprintf("c%d", m.expect[i].Cmd.ID) {
				c.Violate("log/action-order-differs", fmt.Sprintf("line %d: want %s got %s\n%s", i, want[i], t.Log[i], desc()), files)
				break
			}
			sig := c16Classify(m.expect[i], parts[1:])
			if m.g.ag.HasFlag {
				// grammars with a template parameter go through syntax.Instantiate
				sig = "templated-grammar/" + sig
			}
			c.Violate(sig, fmt.Sprintf("line %d: want %s\n        got  %s\naction: %v\n%s", i, want[i], t.Log[i], m.expect[i].Cmd.Items, desc()), files)
			break
		}
		if bad {
			continue
		}
		if t.Val != m.val {
			c.Violate("result-value-differs", desc(), files)
			continue
		}
		c.Count("sentences_with_identical_log", 1)
		gs := stats[m.g]
		if gs == nil {
			gs = &gstat{forms: map[string]bool{}}
			stats[m.g] = gs
		}
		for _, l := range m.expect {
			gs.lines++
			c.Count("log_lines_compared", 1)
			if l.Cmd.End {
				c.Count("lines_end_of_rule", 1)
			} else {
				c.Count("lines_mid_rule", 1)
			}
			if l.Cmd.InList {
				c.Count("lines_in_list_body", 1)
			}
			if l.Cmd.Twin != nil {
				c.Count("lines_of_mid_rule_actions_with_identical_text", 1)
			}
			if l.Cmd.Marked {
				c.Count("lines_in_rules_with_state_markers", 1)
			}
			for i, it := range l.Cmd.Items {
				gs.forms[it.Form] = true
				c.Count("refs_compared", 1)
				if l.Present[i] {
					c.Count("ref:"+it.Form+"/present", 1)
				} else {
					c.Count("ref:"+it.Form+"/absent", 1)
					if it.Kind == actgram.IValue {
						c.Count("absent_value_refs_compared", 1)
					} else {
						c.Count("absent_position_refs_compared", 1)
					}
				}
			}
		}
	}
	for g, s := range stats {
		if s.lines >= 20 && len(s.forms) >= 5 {
			c.Distinct(g.pkg.Text)
		}
	}
}

func init() {
	fw.Register(&fw.Check{
		ID:          "C16",
		Rule:        "each case: random grammars (alternatives guarded by distinct terminals; optional symbols and groups, nested choices, +/* lists with and without separators, nullable nonterminals; aliases on symbols, groups and lists; duplicate symbol names; optional lists without alias, mostly followed directly by a mid-rule action; state markers in about a third of the rules, behind the last mid-rule action; in 60% of the candidates a pair of rules whose mid-rule actions have byte-identical text (same label), the same stack layout and types but the aliases on swapped positions; in a third of the grammars a template flag F with nonterminals N<F>, [F]/[!F] alternatives and references N<+F>/N<~F>) in which every terminal carries a value set by a lexer action (its start offset as int, or a string made from it) and every rule ends with an action assigning $$ a tagged value built from child references; end-of-rule, mid-rule (also inside optional parts, nested alternatives and list bodies, before and after other mid-rule actions, never adjacent to another action in any expansion, since the compiler merges adjacent actions into '{..}{..}' which is not valid Go) actions log through vlog the reference forms $alias/${alias}, $sym, ${sym#N}, $N, ${N.offset}, ${N.endoffset} (also for list positions), $$, ${x.offset}, ${x.endoffset} (single symbols, multi-symbol group aliases, list aliases), ${first().offset}, ${last().endoffset}, ${left().offset}, ${left().endoffset}. Not generated: values of lists, $$/left() inside mid-rule actions or list bodies, first() in list bodies or after an action that may become the first right-hand-side symbol. Grammars the compiler rejects (conflicts) or the generator refuses (reference form not accepted) are counted, not failed. Sentences are sampled top-down with the derivation, rendered with irregular whitespace, and the expected ordered log (value/position of the named symbol in this expansion, <nil> / -1 when absent; an empty nonterminal lies at the start of the following token) and result value must equal the parser's. Grammar non-trivial/distinct: >=20 log lines compared over >=5 reference forms",
		Assumptions: []string{"the generated lexer tokenizes space-separated literals correctly (C11)", "conflict-freeness taken from the compiler (C03), hence the sampled derivation is the unique one", "symbol ranges follow the first-to-last-symbol rule validated by C02"},
		Cases: func(tier string) int {
			if tier == "thorough" {
				return 40
			}
			return 6
		},
		Par:           8,
		Run:           c16Run,
		CPUBudget:     900,
		MinNontrivial: func(tier string) int { return 15 },
		RequiredCounters: []string{"refs_compared", "absent_value_refs_compared", "absent_position_refs_compared", "lines_mid_rule", "lines_in_list_body",
			"ref:$alias/present", "ref:$sym#N/present", "ref:$N/present", "ref:$N/absent", "ref:$$/present", "ref:${first().offset}/present", "ref:${last().endoffset}/present", "ref:${left().offset}/present", "ref:${group-alias.offset}/present", "ref:${list-alias.endoffset}/present", "ref:${N(list).offset}/present", "ref:${N(list).offset}/absent", "ref:${N.endoffset}/present", "lines_in_rules_with_state_markers", "grammars_with_template_flag", "lines_of_mid_rule_actions_with_identical_text"},
	})
}
