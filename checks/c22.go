package checks

import (
	"context"
	"encoding/json"
	"fmt"
	"hash/fnv"
	"regexp"
	"runtime/debug"
	"strings"

	"github.com/inspirer/textmapper/compiler"
	"github.com/inspirer/textmapper/parsers/tm"
	"github.com/inspirer/textmapper/status"
	"verif/internal/fw"
	"verif/internal/tmmut"
)

// C22 – the grammar compiler never crashes and reports in-range diagnostics.
//
// Refuting events: a panic, a process exit (log.Fatal, fatal stack overflow) or a
// CPU-budget blow-up during compiler.Compile; a returned error whose range is not
// inside the text, or whose line/column do not match its byte offset.

var c22Params = []compiler.Params{
	{}, {CheckOnly: true}, {Verbose: true}, {DebugTables: true}, {DebugTables: true, DebugConflicts: true}, {CollectStats: true, Verbose: true},
}

var (
	reQuoted = regexp.MustCompile(`'[^']*'|"[^"]*"|\([^)]*\)|\[[^\]]*\]`)
	reWord   = regexp.MustCompile(`^[A-Za-z%][A-Za-z/'-]*$`)
)

// msgClass reduces a diagnostic message to a stable class: quoted text, numbers,
// position prefixes and every word that is a symbol name of the grammar at hand
// (names) are dropped; the first five remaining plain words are kept.
func msgClass(msg string, names map[string]bool) string {
	if i := strings.IndexByte(msg, '\n'); i >= 0 {
		msg = msg[:i]
	}
	msg = reQuoted.ReplaceAllString(msg, " ")
	var out []string
	for _, w := range strings.Fields(msg) {
		w = strings.TrimRight(w, ",:;.")
		if !reWord.MatchString(w) || names[w] {
			continue
		}
		out = append(out, w)
		if len(out) == 5 {
			break
		}
	}
	if len(out) == 0 {
		return "_"
	}
	return strings.Join(out, " ")
}

// nameSet collects the spellings of all name-like tokens of a grammar text.
func nameSet(text string) map[string]bool {
	m := map[string]bool{}
	for _, t := range tmmut.Tokens(text) {
		// soft keywords are left out: they are ordinary English words of the messages
		if tmmut.IsName(t.Type) && !tmmut.IsSoftKeyword(t.Type) {
			m[text[t.Off:t.End]] = true
		}
	}
	return m
}

func clampDelta(d int) string {
	if d < -3 || d > 3 {
		if d < 0 {
			return "<-3"
		}
		return ">+3"
	}
	return fmt.Sprintf("%+d", d)
}

// topRepoFrame extracts the innermost textmapper function from a Go stack dump.
func topRepoFrame(stack string) string {
	for _, l := range strings.Split(stack, "\n") {
		l = strings.TrimSpace(l)
		if strings.HasPrefix(l, "github.com/inspirer/textmapper/") {
			l = strings.TrimPrefix(l, "github.com/inspirer/textmapper/")
			if i := strings.LastIndexByte(l, '('); i > 0 {
				l = l[:i]
			}
			return l
		}
	}
	return "unknown"
}

type c22Origin struct {
	kind           string // "syntax" or "status"
	off, end       int
	line, col      int
	hasCol, hasPos bool
	msg            string
}

// c22Judge checks one returned location against the text. Independent of the
// implementation: lines are counted by scanning the text for '\n'.
func c22Judge(c *fw.Ctx, text string, o c22Origin, names map[string]bool, files map[string]string) {
	cls := o.kind + "/" + msgClass(o.msg, names)
	desc := func() string {
		return fmt.Sprintf("%s error %q: Offset=%d EndOffset=%d Line=%d Column=%d (text of %d bytes)", o.kind, o.msg, o.off, o.end, o.line, o.col, len(text))
	}
	switch {
	case o.off < 0 || o.end < 0:
		c.Violate("diag/range/negative/"+cls, desc(), files)
		return
	case o.off > o.end:
		c.Violate("diag/range/inverted/"+cls, desc(), files)
		return
	case o.end > len(text):
		c.Violate("diag/range/end-beyond-text/"+cls, desc(), files)
		return
	}
	wantLine := 1 + strings.Count(text[:o.off], "\n")
	wantCol := o.off - strings.LastIndexByte(text[:o.off], '\n') // LastIndex = -1 on the first line => off+1
	later := "line=1"
	if wantLine > 1 {
		later = "line>1"
		c.Count("locations_on_later_lines", 1)
	}
	if o.line != wantLine {
		if nbs := strings.Count(text[:o.off], "\\\n"); o.kind == "syntax" && o.line < wantLine && wantLine-o.line <= nbs {
			// the reported line lags by at most the number of backslash-newline pairs before the offset
			c.Violate("diag/line/syntax-error-line-lags/after-backslash-newline", desc()+fmt.Sprintf("; the offset is on line %d; %d backslash-newline pair(s) precede it", wantLine, nbs), files)
			return
		}
		c.Violate(fmt.Sprintf("diag/line/delta=%s/%s/%s", clampDelta(o.line-wantLine), later, cls), desc()+fmt.Sprintf("; the offset is on line %d", wantLine), files)
		return
	}
	if o.hasCol && o.col != wantCol {
		c.Violate(fmt.Sprintf("diag/column/delta=%s/%s/%s", clampDelta(o.col-wantCol), later, cls), desc()+fmt.Sprintf("; the offset is at byte column %d of line %d", wantCol, wantLine), files)
		return
	}
	c.Count("locations_consistent", 1)
}

// c22Compile runs one text through the compiler under the monitor.
func c22Compile(c *fw.Ctx, text string, pi int, origin string) {
	params := c22Params[pi%len(c22Params)]
	pj, _ := json.Marshal(params)
	files := map[string]string{"grammar.tm": text, "params.json": string(pj), "origin.txt": origin}
	c.Note(files)
	c.Eval(1)
	c.Count("texts", 1)
	var err error
	func() {
		defer func() {
			if r := recover(); r != nil {
				msg := fmt.Sprint(r)
				st := string(debug.Stack())
				// skip the frames of the recover machinery: look below "panic("
				if i := strings.Index(st, "panic("); i >= 0 {
					st = st[i:]
				}
				c.Violate("panic/"+fw.Skeleton(msg)+"/at="+topRepoFrame(st), "compiler.Compile panicked: "+msg+"\n"+st, files)
				c.Count("panics", 1)
				err = nil
			}
		}()
		_, err = compiler.Compile(context.Background(), "g.tm", text, params)
	}()
	h := fnv.New64a()
	h.Write([]byte(text))
	key := fmt.Sprintf("%x", h.Sum64())
	switch e := err.(type) {
	case nil:
		c.Count("compile_ok", 1)
		c.Distinct(key)
	case tm.SyntaxError:
		c.Count("syntax_errors", 1)
		c22Judge(c, text, c22Origin{kind: "syntax", off: e.Offset, end: e.Endoffset, line: e.Line, msg: "syntax error"}, nil, files)
	default:
		st := status.FromError(err)
		c.Count("texts_with_diagnostics", 1)
		c.Distinct(key)
		if len(st) == 0 {
			c.Violate("diag/non-nil-error-without-entries", fmt.Sprintf("Compile returned %T %q which unpacks to an empty status", err, err.Error()), files)
		}
		names := nameSet(text)
		for _, se := range st {
			c.Count("status_errors_checked", 1)
			c.Count("diag/"+msgClass(se.Msg, names), 1)
			if se.Origin == (status.SourceRange{}) {
				// no location at all: the statement speaks about source ranges of errors, so a
				// grammar diagnostic without any range is reported, under its own class
				c.Violate("diag/no-origin/"+msgClass(se.Msg, names), fmt.Sprintf("error %q carries no source range (zero Origin)", se.Msg), files)
				continue
			}
			c22Judge(c, text, c22Origin{kind: "status", off: se.Origin.Offset, end: se.Origin.EndOffset, line: se.Origin.Line, col: se.Origin.Column, hasCol: true, msg: se.Msg}, names, files)
		}
	}
}

// c22Family is the schedule of case families (index = case % len).
var c22Family = []string{
	"shipped", "heavy", "synth-clean", "synth-hostile", "token", "byte", "inject", "synth-clean", "synth-hostile", "token",
	"synth-clean", "byte", "inject", "synth-hostile", "token", "stack", "synth-hostile", "inject", "synth-clean", "byte",
}

const c22Batch = 100

// c22Cases returns the number of main cases (batches of c22Batch texts) and of
// mini cases (two cyclic-set texts each).
func c22Cases(tier string) (main, mini int) {
	if tier == "thorough" {
		return 4400, 2000
	}
	return 200, 80
}

func c22Base(c *fw.Ctx, light []tmmut.Seed) (string, string) {
	// a base grammar for mutation: shipped (light) or synthetic
	if c.R.Intn(2) == 0 {
		s := light[c.R.Intn(len(light))]
		return s.Text, s.Name
	}
	g := tmmut.Synth(c.R, []int{0, 0, 30}[c.R.Intn(3)], c.R.Intn(4), c22NoCyclic)
	return g.Text(), "synth[" + strings.Join(g.Tags, ",") + "]"
}

var c22NoCyclic = func() []string {
	var r []string
	for _, n := range tmmut.FragmentNames() {
		if n != "cyclic-sets" {
			r = append(r, n)
		}
	}
	return r
}()

func c22Run(c *fw.Ctx) {
	// A legitimate compile of the bounded inputs generated here needs a few MB of
	// stack; lowering the 1 GB default makes runaway recursion die quickly instead of
	// eating 1 GB per child. (Nesting depth of generated texts is <= 3000.)
	debug.SetMaxStack(256 << 20)

	all := tmmut.Shipped()
	var light, heavy []tmmut.Seed
	for _, s := range all {
		if s.Heavy {
			heavy = append(heavy, s)
		} else {
			light = append(light, s)
		}
	}
	if len(light) < 20 {
		c.Violate("harness/corpus-missing", fmt.Sprintf("only %d shipped grammars found under %s", len(light), tmmut.RepoRoot()), nil)
		return
	}
	fam := c22Family[c.Case%len(c22Family)]
	if main, _ := c22Cases(c.Tier); c.Case >= main {
		// cyclic named sets: two texts per case, because a fatal stack overflow ends the case
		fam = "cyclic"
	}
	if c.Case >= len(c22Family) && (fam == "shipped" || fam == "heavy") {
		fam = []string{"synth-hostile", "token", "inject", "byte"}[(c.Case/len(c22Family))%4]
		if c.Tier == "thorough" && c.Case%400 == 1 {
			fam = "heavy"
		}
	}
	c.Count("family/"+fam, 1)
	r := c.R
	switch fam {
	case "shipped":
		// every shipped grammar unmodified, under every parameter vector (the heavy one once)
		for _, s := range light {
			for pi := range c22Params {
				c22Compile(c, s.Text, pi, s.Name)
			}
			c.Count("shipped_texts", 1)
		}
		for _, s := range heavy {
			c22Compile(c, s.Text, 0, s.Name)
			c.Count("shipped_texts", 1)
		}
	case "heavy":
		// the big grammar (seconds per full compile): a few mutations only
		for _, s := range heavy {
			toks := tmmut.Tokens(s.Text)
			in := tmmut.Analyze(s.Text)
			for i := 0; i < 10; i++ {
				kind := tmmut.TokenMutators[r.Intn(len(tmmut.TokenMutators))]
				o := light[r.Intn(len(light))]
				c.Count("mut/"+kind, 1)
				c22Compile(c, tmmut.MutateTokens(r, kind, s.Text, toks, o.Text, tmmut.Tokens(o.Text)), 1, s.Name+"+"+kind)
			}
			for i := 0; i < 4; i++ {
				kind := tmmut.InjectKinds[1+r.Intn(len(tmmut.InjectKinds)-1)]
				c.Count("mut/"+kind, 1)
				c22Compile(c, tmmut.Inject(r, kind, s.Text, in, 30), 1, s.Name+"+"+kind)
			}
			for i := 0; i < 6; i++ {
				kind := tmmut.ByteMutators[r.Intn(len(tmmut.ByteMutators))]
				c.Count("mut/"+kind, 1)
				c22Compile(c, tmmut.MutateBytes(r, kind, s.Text), 1, s.Name+"+"+kind)
			}
		}
	case "synth-clean":
		for i := 0; i < c22Batch; i++ {
			g := tmmut.Synth(r, 0, r.Intn(5), c22NoCyclic)
			for _, t := range g.Tags {
				c.Count("frag/"+t, 1)
			}
			text := g.Text()
			if i == 0 {
				c.Sample(map[string]any{"family": fam, "tags": g.Tags, "grammar": text})
			}
			c22Compile(c, text, r.Intn(len(c22Params)), "synth-clean["+strings.Join(g.Tags, ",")+"]")
		}
	case "synth-hostile":
		for i := 0; i < c22Batch; i++ {
			g := tmmut.Synth(r, []int{15, 40, 100}[r.Intn(3)], 1+r.Intn(6), c22NoCyclic)
			for _, t := range g.Tags {
				c.Count("frag/"+t, 1)
			}
			c22Compile(c, g.Text(), r.Intn(len(c22Params)), "synth-hostile["+strings.Join(g.Tags, ",")+"]")
		}
	case "cyclic", "stack":
		// recursion hazards kept in dedicated small cases: a fatal stack overflow kills the
		// child and the rest of the batch with it
		only := []string{"cyclic-sets", "cyclic-sets", "sets", "rules", "lookaheads", "flags"}
		if fam == "stack" {
			only = []string{"deep", "deep", "long", "inline", "flags", "lexer"}
		}
		n := c22Batch / 4
		if fam == "cyclic" {
			n = 2
		}
		for i := 0; i < n; i++ {
			g := tmmut.Synth(r, []int{0, 30}[r.Intn(2)], 1+r.Intn(3), only)
			for _, t := range g.Tags {
				c.Count("frag/"+t, 1)
			}
			text := g.Text()
			if i == 0 && c.Case%7 == 0 {
				c.Sample(map[string]any{"family": fam, "tags": g.Tags, "grammar": text})
			}
			c22Compile(c, text, r.Intn(len(c22Params)), fam+"["+strings.Join(g.Tags, ",")+"]")
		}
	case "token":
		for i := 0; i < c22Batch; i++ {
			text, name := c22Base(c, light)
			n := 1 + r.Intn(3)
			for k := 0; k < n; k++ {
				kind := tmmut.TokenMutators[r.Intn(len(tmmut.TokenMutators))]
				o := light[r.Intn(len(light))]
				text = tmmut.MutateTokens(r, kind, text, tmmut.Tokens(text), o.Text, tmmut.Tokens(o.Text))
				name += "+" + kind
				c.Count("mut/"+kind, 1)
			}
			c22Compile(c, text, r.Intn(len(c22Params)), name)
		}
	case "byte":
		for i := 0; i < c22Batch; i++ {
			text, name := c22Base(c, light)
			n := 1 + r.Intn(3)
			for k := 0; k < n; k++ {
				kind := tmmut.ByteMutators[r.Intn(len(tmmut.ByteMutators))]
				text = tmmut.MutateBytes(r, kind, text)
				name += "+" + kind
				c.Count("mut/"+kind, 1)
			}
			c22Compile(c, text, r.Intn(len(c22Params)), name)
		}
	case "inject":
		for i := 0; i < c22Batch; i++ {
			text, name := c22Base(c, light)
			n := 1 + r.Intn(2)
			for k := 0; k < n; k++ {
				kind := tmmut.InjectKinds[1+r.Intn(len(tmmut.InjectKinds)-1)] // index 0 (cyclic sets) lives in its own family
				text = tmmut.Inject(r, kind, text, tmmut.Analyze(text), []int{0, 30, 100}[r.Intn(3)])
				name += "+" + kind
				c.Count("mut/"+kind, 1)
			}
			if r.Intn(4) == 0 {
				kind := tmmut.TokenMutators[r.Intn(len(tmmut.TokenMutators))]
				text = tmmut.MutateTokens(r, kind, text, tmmut.Tokens(text), "", nil)
				name += "+" + kind
				c.Count("mut/"+kind, 1)
			}
			c22Compile(c, text, r.Intn(len(c22Params)), name)
		}
	}
}

// c22Post narrows the framework's crash signatures using the child's stderr: the
// function that overflowed the stack, the log.Fatal message class, the panic site.
func c22Post(p *fw.Parent) {
	for i := range p.Violations {
		v := &p.Violations[i]
		if !strings.HasPrefix(v.Sig, "crash/") {
			continue
		}
		se := v.Files["child_stderr.txt"]
		switch {
		case strings.Contains(se, "stack overflow") || strings.Contains(se, "goroutine stack exceeds"):
			fn := "unknown"
			if i := strings.Index(se, "\ngoroutine "); i >= 0 {
				fn = topRepoFrame(se[i:])
			}
			v.Sig = "crash/stack-overflow/" + fn
		case strings.Contains(se, "\npanic:") || strings.HasPrefix(se, "panic:") || strings.Contains(se, "fatal error:"):
			first := ""
			for _, l := range strings.Split(se, "\n") {
				if strings.HasPrefix(l, "panic:") || strings.HasPrefix(l, "fatal error:") {
					first = l
					break
				}
			}
			v.Sig = "crash/" + fw.Skeleton(first) + "/at=" + topRepoFrame(se)
		default:
			ls := strings.Split(strings.TrimSpace(se), "\n")
			l := ls[len(ls)-1]
			if len(l) > 20 && l[4] == '/' && l[7] == '/' {
				l = l[20:]
			}
			names := nameSet(v.Files["grammar.tm"])
			// words of the fixed log.Fatal texts stay even when the grammar has symbols of that name
			for _, w := range strings.Fields("error internal invariant failure grammar inconsistency state broken found inside rule cannot is not properly instantiated invalid token set unknown regexp operation input on a no for of kind") {
				delete(names, w)
			}
			if i := strings.Index(l, "internal failure: "); i >= 0 {
				// syntax.checkOrDie: "<stage>, internal failure: file:line:col: message"
				inner := l[i+len("internal failure: "):]
				if j := strings.Index(inner, ": "); j >= 0 && strings.HasPrefix(inner, "g.tm:") {
					inner = inner[j+2:]
				}
				v.Sig = "crash/exit/internal-failure/" + msgClass(l[:i], names) + "/" + msgClass(inner, names)
			} else {
				v.Sig = "crash/exit/" + msgClass(l, names)
			}
		}
	}
}

func init() {
	fw.Register(&fw.Check{
		ID:   "C22",
		Rule: "every text is written to disk (c.Note) and then given to compiler.Compile under one of 6 Params vectors. Families (by case index): all shipped grammars (parsers/*/*.tm, compiler/testdata/*.tm, *.tmerr raw and with markers stripped) unmodified under every Params vector; synthetic grammars = one of 6 valid skeletons (expression, json, templates/flags, lookaheads+error recovery, event/AST fields, lexer-only with start conditions) plus 0-6 feature fragments (options, named sets, cyclic named sets, %input lists, lookaheads on nullable/recursive/self/mutual nonterminals, flags/templates, hostile names, lexer rules/patterns/start conditions/classes, random rules, inline, precedence, inject/interface, arrows/fields, deep nesting, long lines, extend/opt suffix, lalr(k), templates section, semantic actions) used legitimately (hostility 0) or misused (hostility 15-100); token-level mutations through the real tm lexer (delete, duplicate, swap, replace, insert, range delete/duplicate, splice between grammars, rename); byte-level mutations (bit flip, hostile byte, insertion, range deletion, truncation, invalid UTF-8, CRLF/CR, BOM, joined lines, duplicated chunk); fragments grafted into shipped grammars. Oracle: no panic/exit/CPU blow-up; tm.SyntaxError{Offset,Endoffset,Line} and every status.Error origin must satisfy 0<=Offset<=EndOffset<=len(text), Line==1+count('\\n' before Offset), Column==Offset-index of last '\\n' before Offset (bytes, 1-based), recomputed by scanning the text. A text is non-trivial (distinct key = text hash) when it passes the syntax stage (compiles or returns status diagnostics)",
		Assumptions: []string{
			"a syntax error is judged on the tm.SyntaxError value that Compile returns (offset, end offset, line; it has no column); status.FromError on it yields a zero Origin, which is not judged here",
			"lines are separated by '\\n' only (what status.SourceRange documents: line 1-based, column 1-based in bytes)",
			"the goroutine stack limit of the child is lowered to 256 MB (generated nesting depth <= 3000)",
		},
		Cases: func(tier string) int {
			main, mini := c22Cases(tier)
			return main + mini
		},
		Run:           c22Run,
		Post:          c22Post,
		CPUBudget:     240,
		MinNontrivial: func(tier string) int { return 3000 },
		RequiredCounters: []string{"compile_ok", "syntax_errors", "status_errors_checked", "locations_on_later_lines", "locations_consistent", "shipped_texts",
			"family/synth-clean", "family/synth-hostile", "family/token", "family/byte", "family/inject", "family/cyclic", "family/stack", "family/heavy"},
	})
}
