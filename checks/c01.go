package checks

import (
	"fmt"
	"math/rand"
	"strings"

	"verif/internal/fw"
	"verif/internal/genrun"
	"verif/internal/gram"
)

// C01 – generated parsers accept exactly the grammar's language.

type c01Grammar struct {
	pg   *gram.PGrammar
	pkg  *genrun.Pkg
	optv int
	big  bool
}

// compileCandidates generates grammars with gen until n compile without error.
// Conflict errors are expected (the grammar is simply not LALR(1)); other errors are counted.
func compileCandidates(c *fw.Ctx, n, maxTries int, gen func(i, accepted int) (*gram.PGrammar, int, bool)) []*c01Grammar {
	var out []*c01Grammar
	for i := 0; len(out) < n && i < maxTries; i++ {
		pg, optv, big := gen(i, len(out))
		name := fmt.Sprintf("g%04d", len(out))
		text := pg.Text(name)
		c.Note(map[string]string{"grammar.tm": text})
		c.Count("grammars_generated", 1)
		pkg, cerr, gerr := genrun.Generate(name, text)
		if cerr != nil {
			msg := cerr.Error()
			switch {
			case strings.Contains(msg, "conflict"):
				c.Count("grammars_rejected_conflicts", 1)
			default:
				c.Count("grammars_rejected_other", 1)
				c.Count("reject:"+fw.Skeleton(firstLine(msg)), 1)
			}
			continue
		}
		if gerr != nil {
			c.Violate("generate-failed/"+fw.Skeleton(gerr.Error()), "gen.Generate failed for a grammar that compiles:\n"+gerr.Error()+"\n"+text, map[string]string{"grammar.tm": text})
			continue
		}
		out = append(out, &c01Grammar{pg: pg, pkg: pkg, optv: optv, big: big})
	}
	return out
}

func firstLine(s string) string {
	if i := strings.IndexByte(s, '\n'); i >= 0 {
		return s[:i]
	}
	return s
}

type c01Job struct {
	g     *c01Grammar
	entry int
	in    pinput
	exp   pexpect
}

// runAndJudgeLanguage runs all inputs of the grammars and compares accept/reject
// and error positions with the Earley reference. sigPrefix distinguishes checks.
func runAndJudgeLanguage(c *fw.Ctx, gs []*c01Grammar, bin string, jobs []genrun.Job, meta []c01Job, checkPos bool) {
	res, err := genrun.Run(bin, c.WorkDir, jobs, 900)
	if err != nil {
		c.Violate("harness/runner/"+fw.Skeleton(err.Error()), err.Error(), nil)
		return
	}
	for _, id := range append(append([]int(nil), res.Crashed...), res.CPUExceeded...) {
		m := meta[id]
		kind := "crash"
		for _, x := range res.CPUExceeded {
			if x == id {
				kind = "cpu-limit"
			}
		}
		c.Violate("generated-parser/"+kind, fmt.Sprintf("runner died while parsing %q (entry %d)\n%s", m.in.text, m.entry, res.Stderr),
			map[string]string{"grammar.tm": m.g.pkg.Text, "input.txt": m.in.text, "stderr.txt": res.Stderr})
	}
	for id, m := range meta {
		t := res.Traces[id]
		if t == nil {
			continue
		}
		c.Eval(1)
		in := m.g.pg.Inputs[m.entry]
		kind := "eoi"
		if in.NoEoi {
			kind = "no-eoi"
		}
		desc := func() string {
			return fmt.Sprintf("grammar options %v, input %s (%s), tokens: %s\ntext: %q\nreference: accept=%v errTok=%d\nparser: ok=%v errkind=%s err=%q range=[%d,%d]",
				m.g.pg.Opts, m.g.pg.CFG.Nonterms[in.NT], kind, toksString(m.g.pg.CFG, m.in.toks), m.in.text, m.exp.accept, m.exp.errTok, t.OK, t.ErrKind, t.Err, t.S, t.E)
		}
		files := map[string]string{"grammar.tm": m.g.pkg.Text, "input.txt": m.in.text}
		if t.Panic != "" {
			c.Violate("generated-parser/panic/"+fw.Skeleton(firstLine(t.Panic)), desc()+"\n"+t.Panic, files)
			continue
		}
		if t.OK != m.exp.accept {
			if t.OK {
				c.Violate("accept/parser-accepts-non-sentence/"+kind, desc(), files)
			} else {
				c.Violate("accept/parser-rejects-sentence/"+kind, desc(), files)
			}
			continue
		}
		if m.exp.accept {
			c.Count("accepted", 1)
			if in.NoEoi {
				c.Count("accepted_noeoi", 1)
			}
			continue
		}
		c.Count("rejected", 1)
		if t.ErrKind != "syntax" {
			c.Violate("reject/not-a-syntax-error", desc(), files)
			continue
		}
		if !checkPos {
			continue
		}
		ws, we := len(m.in.text), len(m.in.text)
		where := "eoi"
		if m.exp.errTok < len(m.in.toks) {
			ws, we = m.in.pos[m.exp.errTok][0], m.in.pos[m.exp.errTok][1]
			where = "token"
		}
		if t.S != ws || t.E != we {
			rel := "later"
			if t.S < ws {
				rel = "earlier"
			}
			c.Violate("error-position/"+where+"/reported-"+rel+"/"+kind, desc()+fmt.Sprintf("\nexpected error range [%d,%d]", ws, we), files)
			continue
		}
		if where == "eoi" {
			c.Count("rejected_at_eoi", 1)
		}
	}
}

func c01Run(c *fw.Ctx) {
	thorough := c.Tier == "thorough"
	nSmall, nBig := 12, 1
	if thorough {
		nSmall, nBig = 20, 1
	}
	r := c.R
	gs := compileCandidates(c, nSmall, nSmall*30, func(i, accepted int) (*gram.PGrammar, int, bool) {
		var pg *gram.PGrammar
		if i%4 == 3 {
			pg = gram.LeftRecCFG(r)
			c.Count("leftrec_family_generated", 1)
		} else {
			pg = gram.RandCFG(r)
		}
		// the option vector follows the number of grammars accepted so far, so that all 8 vectors are
		// used in every case whatever the rejection pattern is
		optv := (c.Case*3 + accepted) % 8
		pg.Opts = tableOpts(optv)
		return pg, optv, false
	})
	big := compileCandidates(c, nBig, nBig*10, func(i, accepted int) (*gram.PGrammar, int, bool) {
		pg := gram.LargeCFG(r)
		optv := (c.Case + i) % 8
		pg.Opts = tableOpts(optv)
		return pg, optv, true
	})
	for i, b := range big {
		b.pkg.Name = fmt.Sprintf("b%04d", i)
		// regenerate under the final package name
		text := b.pg.Text(b.pkg.Name)
		pkg, cerr, gerr := genrun.Generate(b.pkg.Name, text)
		if cerr != nil || gerr != nil {
			continue
		}
		b.pkg = pkg
		gs = append(gs, b)
	}
	if len(gs) == 0 {
		return
	}
	var pkgs []*genrun.Pkg
	for _, g := range gs {
		pkgs = append(pkgs, g.pkg)
	}
	_, bin := buildModule(c, pkgs, false)
	if bin == "" {
		return
	}
	var jobs []genrun.Job
	var meta []c01Job
	for _, g := range gs {
		c.Count(fmt.Sprintf("optvec_%d", g.optv), 1)
		states := 0
		if g.pkg.G != nil && g.pkg.G.Parser != nil && g.pkg.G.Parser.Tables != nil {
			states = g.pkg.G.Parser.Tables.NumStates
		}
		if states >= 80 {
			c.Count("grammars_with_80plus_states", 1)
		}
		nontrivial := false
		for e, in := range g.pg.Inputs {
			budget, ns, nm, sz := 160, 30, 60, 24
			if thorough {
				budget, ns, nm, sz = 1200, 60, 150, 40
			}
			if g.big {
				budget, ns, nm, sz = 40, 40, 120, 120
			}
			inputs := genInputs(r, g.pg.CFG, in.NT, budget/len(g.pg.Inputs)+20, ns, nm, sz)
			acc, rej := 0, 0
			for _, toks := range inputs {
				text, pos := gram.RenderTokens(r, g.pg.CFG.Terms, toks)
				exp := expectParse(g.pg.CFG, in, toks)
				if exp.accept {
					acc++
				} else {
					rej++
				}
				meta = append(meta, c01Job{g: g, entry: e, in: pinput{toks, text, pos}, exp: exp})
				jobs = append(jobs, genrun.Job{ID: len(jobs), Pkg: g.pkg.Name, Mode: "parse", Entry: e, Text: text, MaxEvents: 1 << 22})
			}
			if acc > 0 && rej > 0 {
				nontrivial = true
			}
		}
		if nontrivial && states >= 4 {
			c.Distinct(g.pg.CFG.String() + fmt.Sprint(g.pg.Inputs))
			c.Count("grammars_run", 1)
		}
		if len(g.pg.Inputs) > 1 {
			c.Count("grammars_with_multiple_inputs", 1)
		}
	}
	if c.Case == 0 && len(gs) > 0 {
		c.Sample(map[string]any{"grammar": gs[0].pkg.Text, "example_input": meta[len(meta)/2].in.text})
	}
	runAndJudgeLanguage(c, gs, bin, jobs, meta, true)
}

func init() {
	fw.Register(&fw.Check{
		ID:          "C01",
		Rule:        "each case: random small CFGs (2-6 terminals, 1-7 nonterminals, empty rules, recursion, several eoi/no-eoi inputs, state markers, mid-rule actions; half in a guarded LL(1)-like style) plus one large statement/expression grammar (>=80 states) are printed as textmapper source under one of the 8 optimizeTables/defaultReduce/minimizeDFA vectors, compiled by compiler.Compile (grammars with reported conflicts are discarded), generated, built with go build and run; every (grammar, input, token string) from {all strings up to a length bound, sampled sentences, token mutations} is judged by an Earley recognizer on the abstract CFG: accept iff sentence (no-eoi: iff a prefix is a sentence), else SyntaxError range == byte range of the first token leaving the viable prefixes (len(text) at end). In addition every lalr.Compile performed by compiler.Compile in this check runs under the table-level invariant monitors of C03-C06 (hook in lalr.Compile: reference LALR(1) cells, bisimulation across minimize, encoding comparison across Optimize); their findings are reported as hook/<property>/... Grammar non-trivial/distinct: >=4 states, both accepted and rejected inputs observed, distinct rule text",
		Assumptions: []string{"Earley recognizer in internal/cfg is correct", "the generated lexer tokenizes space-separated single-word literals correctly (covered by C11)", "conflict-freeness is taken from the compiler's own report (exactness of that report is C03)"},
		Cases: func(tier string) int {
			if tier == "thorough" {
				return 40
			}
			return 6
		},
		Par:           8,
		Run:           func(c *fw.Ctx) { withHookMonitor(c, func() { c01Run(c) }) },
		CPUBudget:     900,
		MinNontrivial: func(tier string) int { return 20 },
		RequiredCounters: []string{"accepted", "rejected", "accepted_noeoi", "rejected_at_eoi", "grammars_with_multiple_inputs", "grammars_with_80plus_states",
			"hook_compiles_monitored", "hook_reference_lalr1_compared", "hook_minimize_bisimulations", "hook_optimize_encodings_compared", "optvec_0", "optvec_1", "optvec_2", "optvec_3", "optvec_4", "optvec_5", "optvec_6", "optvec_7"},
	})
	_ = rand.Int
}
