package checks

import (
	"encoding/json"
	"fmt"
	"math/rand"
	"os"
	"path/filepath"
	"regexp"
	"sort"
	"strings"
	"time"

	"github.com/inspirer/textmapper/status"

	"verif/internal/featgram"
	"verif/internal/fw"
	"verif/internal/genrun"
)

// C17 – generation completes and the generated Go code builds.
//
// Every case generates a batch of feature-rich grammars (internal/featgram), each
// under an option vector taken from a pairwise covering array over the 25
// Go-relevant options, runs compiler.Compile and gen.Generate in-process, writes
// all accepted packages into one scratch module and runs ONE `go build -gcflags=-e
// ./...`. The oracle is the Go compiler: any diagnostic in a generated package is a
// violation, classified by generated file and message skeleton.

var c17Options = featgram.BoolOptions

// c17PairRows returns a pairwise covering array for k binary factors, built by a
// deterministic greedy procedure (fixed internal seed, independent of VERIF_SEED).
func c17PairRows(k int) [][]bool {
	r := rand.New(rand.NewSource(20260921))
	type pair struct{ a, b, va, vb int }
	uncovered := map[pair]bool{}
	for a := 0; a < k; a++ {
		for b := a + 1; b < k; b++ {
			for v := 0; v < 4; v++ {
				uncovered[pair{a, b, v & 1, v >> 1}] = true
			}
		}
	}
	gain := func(row []int, n int) int {
		cnt := 0
		for a := 0; a < n; a++ {
			for b := a + 1; b < n; b++ {
				if uncovered[pair{a, b, row[a], row[b]}] {
					cnt++
				}
			}
		}
		return cnt
	}
	var rows [][]bool
	for len(uncovered) > 0 {
		var best []int
		bestGain := -1
		for cand := 0; cand < 60; cand++ {
			order := r.Perm(k)
			row := make([]int, k)
			set := make([]bool, k)
			for _, f := range order {
				// choose the value covering more uncovered pairs with already fixed factors
				g := [2]int{}
				for v := 0; v < 2; v++ {
					for o := 0; o < k; o++ {
						if !set[o] {
							continue
						}
						a, b, va, vb := f, o, v, row[o]
						if a > b {
							a, b, va, vb = b, a, vb, va
						}
						if uncovered[pair{a, b, va, vb}] {
							g[v]++
						}
					}
				}
				switch {
				case g[0] > g[1]:
					row[f] = 0
				case g[1] > g[0]:
					row[f] = 1
				default:
					row[f] = r.Intn(2)
				}
				set[f] = true
			}
			if gn := gain(row, k); gn > bestGain {
				bestGain, best = gn, row
			}
		}
		for a := 0; a < k; a++ {
			for b := a + 1; b < k; b++ {
				delete(uncovered, pair{a, b, best[a], best[b]})
			}
		}
		br := make([]bool, k)
		for i, v := range best {
			br[i] = v == 1
		}
		rows = append(rows, br)
	}
	return rows
}

var c17RowsCache [][]bool

// c17Special are the two options that switch whole parts of the generator off
// (genParser=false: no parser at all; eventBased=false: no listener/AST files). A
// plain covering array would put half of all packages into each degenerate mode,
// so the array is composed: a pairwise array over the other 23 options with both
// set to true, plus two complementary rows for each degenerate mode. The result is
// still a pairwise covering array over all 25 options.
var c17Special = [2]string{"eventBased", "genParser"}

func c17Rows() [][]bool {
	if c17RowsCache != nil {
		return c17RowsCache
	}
	k := len(c17Options)
	var others []int
	eb, gp := -1, -1
	for i, o := range c17Options {
		switch o {
		case "eventBased":
			eb = i
		case "genParser":
			gp = i
		default:
			others = append(others, i)
		}
	}
	base := c17PairRows(len(others))
	mk := func(ebv, gpv bool, vals []bool, neg bool) []bool {
		row := make([]bool, k)
		row[eb], row[gp] = ebv, gpv
		for j, i := range others {
			row[i] = vals[j] != neg
		}
		return row
	}
	var rows [][]bool
	for _, b := range base {
		rows = append(rows, mk(true, true, b, false))
	}
	r := rand.New(rand.NewSource(42))
	r1, r2 := make([]bool, len(others)), make([]bool, len(others))
	for i := range r1 {
		r1[i], r2[i] = r.Intn(2) == 1, r.Intn(2) == 1
	}
	rows = append(rows, mk(false, false, r1, false), mk(true, false, r1, true), mk(false, true, r2, false), mk(false, true, r2, true))
	c17RowsCache = rows
	return rows
}

// c17Vector returns the option vector of global package index t: row t mod n of
// the covering array, with the columns of the 23 ordinary options permuted and
// complemented by a transform that depends on the seed and on the pass number t/n
// (every complete pass is again a pairwise covering array).
func c17Vector(seed int64, t int) []bool {
	rows := c17Rows()
	n, k := len(rows), len(c17Options)
	pass := t / n
	r := rand.New(rand.NewSource(seed*7919 + int64(pass)*104729 + 17))
	var others []int
	for i, o := range c17Options {
		if o != c17Special[0] && o != c17Special[1] {
			others = append(others, i)
		}
	}
	perm := r.Perm(len(others))
	out := make([]bool, k)
	copy(out, rows[t%n])
	for j, i := range others {
		flip := r.Intn(2) == 1
		out[i] = rows[t%n][others[perm[j]]] != flip
	}
	return out
}

func c17VecString(v []bool) string {
	var on []string
	for i, b := range v {
		if b {
			on = append(on, c17Options[i])
		} else if featgram.Defaults[c17Options[i]] {
			on = append(on, "!"+c17Options[i])
		}
	}
	return strings.Join(on, ",")
}

func c17PerCase(tier string) int {
	if tier == "thorough" {
		return 25
	}
	return 15
}

type c17Pkg struct {
	pkg  *genrun.Pkg
	g    *featgram.Grammar
	vec  []bool
	repl map[string]string
}

var identRE = regexp.MustCompile(`[A-Za-z_][A-Za-z0-9_]*`)

// c17Replacements maps the identifiers that stem from the grammar's own symbol
// names (token IDs, nonterminal IDs, node types, categories, flags, fields) to role
// placeholders so that signatures do not depend on randomly chosen names.
func c17Replacements(p *genrun.Pkg) map[string]string {
	m := map[string]string{}
	g := p.G
	put := func(k, v string) {
		if k != "" {
			if _, ok := m[k]; !ok {
				m[k] = v
			}
		}
	}
	for i, s := range g.Syms {
		if i < g.NumTokens {
			switch s.Name {
			case "eoi", "error", "invalid_token":
				continue
			}
			put(s.ID, "TOKEN")
		} else {
			put(s.ID, "NONTERM")
			put(s.Name, "NONTERM")
			put("At"+s.ID, "AtNONTERM")
		}
	}
	prefix := g.Options.NodePrefix
	if g.Parser != nil && g.Parser.Types != nil {
		for _, t := range g.Parser.Types.RangeTypes {
			if t.Name == g.Options.FileNode {
				put(t.Name, "FILENODE")
				put(prefix+t.Name, "PREFIX+FILENODE")
				continue
			}
			put(t.Name, "NODE")
			if prefix != "" {
				put(prefix+t.Name, "PREFIX+NODE")
			}
			for _, f := range t.Fields {
				put(f.Name, "FIELD")
				put(strings.Title(f.Name), "FIELD")
			}
		}
		for _, c := range g.Parser.Types.Categories {
			put(c.Name, "CATEGORY")
		}
	}
	for _, t := range g.Options.ExtraTypes {
		put(t.Name, "EXTRATYPE")
		if prefix != "" {
			put(prefix+t.Name, "PREFIX+EXTRATYPE")
		}
	}
	if g.Parser != nil {
		for _, f := range g.Parser.UsedFlags {
			put(f, "NODEFLAG")
		}
	}
	for _, f := range g.Lexer.UsedFlags {
		put(f, "NODEFLAG")
	}
	for _, s := range g.Sets {
		put(s.Name, "NAMEDSET")
	}
	put(g.Name, "LANG")
	put(strings.Title(g.Name)+"Node", "LANGNode")
	put("To"+strings.Title(g.Name)+"Node", "ToLANGNode")
	return m
}

func c17Normalize(msg string, repl map[string]string) string {
	msg = strings.ReplaceAll(msg, "w/"+repl["\x00pkg"], "MOD/PKG")
	if i := strings.Index(msg, " is not in std"); i >= 0 {
		msg = msg[:i+len(" is not in std")]
	}
	msg = c17KeywordRE.ReplaceAllString(msg, "unexpected keyword KW")
	return identRE.ReplaceAllStringFunc(msg, func(w string) string {
		if c17MessageWords[w] {
			return w
		}
		if r, ok := repl[w]; ok {
			return r
		}
		return w
	})
}

var c17KeywordRE = regexp.MustCompile(`unexpected keyword \w+`)

// c17MessageWords are lower-case words of compiler messages and of the templates'
// own code; a grammar symbol that happens to have such a name (a nonterminal
// called "type" or "field") must not turn them into placeholders.
var c17MessageWords = func() map[string]bool {
	m := map[string]bool{}
	for _, w := range strings.Fields(`type field method value has no or of in as is not used and declared undefined cannot use func
		int string expected unexpected keyword name syntax error package std missing return variable argument arguments call to
		enough too many have want len stack sym offset endoffset with for on at by a an the than after before found assignment
		mismatch struct interface map chan const var range select switch case default go defer import fallthrough goto continue
		break if else nil true false lexer parser token stream listener node rule state action symbol next input source ok err
		label defined redeclared duplicate key literal block this other see previous declaration statement expression operator newline comma`) {
		m[w] = true
	}
	return m
}()

func init() {
	fw.Register(&fw.Check{
		ID:   "C17",
		Rule: "a case is a batch of featgram grammars (lexer: literals, (class) rules with keyword specialisations, (space) rules, named patterns, %s/%x start conditions, typed tokens and rule code, priorities; parser: several inputs incl. no-eoi, lists with and without separators, optionals, nested choices, arrows/fields/%interface categories/node flags, typed nonterminals and semantic actions, mid-rule actions, precedence and %prec, error recovery, (?= A & !B) lookaheads, template flags and rule predicates, named sets, %inject, lalr(2), custom %% templates) each under an option vector from a pairwise covering array over the 25 options of DESIGN C17 (columns permuted/complemented per seed and pass); every case additionally gets two keyword-list grammars tuned (by compiling candidates) to exactly 128 and one of 127/129/255/256/257/128 LR states, with tokenStream forced on resp. alternating; a grammar is non-trivial when the compiler accepted it and gen.Generate wrote files that reached `go build`; distinct = distinct (option vector, feature set, generated text hash)",
		Assumptions: []string{
			"the Go toolchain (go build -gcflags=-e) is the oracle for 'forms Go packages that build'",
			"user code inside the grammars (semantic actions, lexer code, %% templates) is valid Go wherever the documented generated context provides what it references; customImpl, flexMode, non-Go targets are excluded (need hand-written code / other compilers)",
		},
		Cases: func(tier string) int {
			if tier == "thorough" {
				return 100
			}
			return 10
		},
		MinNontrivial: func(tier string) int {
			if tier == "thorough" {
				return 1200
			}
			return 75
		},
		RequiredCounters: []string{"packages_built_ok", "boundary_size_packages_128_states_tokenstream", "boundary_size_packages_256_states", "packages_with_parser", "packages_lexer_only", "option_pairs_covered",
			"feat:lookahead", "feat:precedence", "feat:error-recovery", "feat:template-flag", "feat:named-set", "feat:lexer-exclusive-state",
			"feat:lexer-without-space-rules", "feat:mid-rule-action", "feat:typed-nonterminal-action", "feat:input-no-eoi", "feat:interface-categories", "feat:field-assign"},
		CPUBudget: 1200,
		Run:       c17Run,
		Post:      c17Post,
	})
}

type c17Extra struct {
	Vecs []uint32 `json:"v"`
}

func c17Post(p *fw.Parent) {
	k := len(c17Options)
	covered := map[[4]int]bool{}
	for _, raw := range p.Extras {
		var e c17Extra
		if json.Unmarshal(raw, &e) != nil {
			continue
		}
		for _, m := range e.Vecs {
			for a := 0; a < k; a++ {
				for b := a + 1; b < k; b++ {
					covered[[4]int{a, b, int(m >> uint(a) & 1), int(m >> uint(b) & 1)}] = true
				}
			}
		}
	}
	total := k * (k - 1) / 2 * 4
	p.Counters["option_pairs_covered"] = int64(len(covered))
	p.Counters["option_pairs_total"] = int64(total)
	if len(covered) < total && os.Getenv("VERIF_ONLY") == "" {
		var missing []string
		for a := 0; a < k && len(missing) < 8; a++ {
			for b := a + 1; b < k && len(missing) < 8; b++ {
				for v := 0; v < 4; v++ {
					if !covered[[4]int{a, b, v & 1, v >> 1}] {
						missing = append(missing, fmt.Sprintf("%s=%v&%s=%v", c17Options[a], v&1 == 1, c17Options[b], v>>1 == 1))
					}
				}
			}
		}
		p.Inconclusive(fmt.Sprintf("only %d of %d option pairs reached go build (e.g. %s)", len(covered), total, strings.Join(missing, " ")))
	}
}

// c17Generate produces the package for global index t (retrying with other
// grammars when the compiler rejects one). Returns nil when none was accepted.
func c17Generate(c *fw.Ctx, j, t int, name string, sigPrefix string, force map[string]bool) *c17Pkg {
	vec := c17Vector(c.Seed, t)
	opt := map[string]bool{}
	for i, o := range c17Options {
		opt[o] = vec[i]
	}
	for o, v := range force {
		opt[o] = v
		for i, n := range c17Options {
			if n == o {
				vec[i] = v
			}
		}
	}
	for attempt := 0; attempt < 5; attempt++ {
		r := c.SubRand(j*16 + attempt)
		cfg := featgram.Config{Opt: opt}
		switch r.Intn(8) {
		case 0:
			cfg.Size = 2
		case 1, 2, 3:
			cfg.Size = 1
		}
		if r.Intn(3) == 0 {
			cfg.Hostile = 1
		}
		if r.Intn(12) == 0 {
			cfg.NoParser = true
		}
		// Mid-rule actions crash the Bison export (reported from the earlier
		// attempts); the last attempts avoid them so that the vector gets a package.
		cfg.NoMidRule = attempt >= 3
		g := featgram.New(r, name, cfg)
		files := map[string]string{"grammar.tm": g.Text}
		c.Note(files)
		c.Count("grammars_generated", 1)
		// Canary: compile+generate in a helper process first, so that a log.Fatal /
		// os.Exit / fatal error inside /repo costs this grammar only, not the batch.
		gpath := filepath.Join(c.WorkDir, name+".tm")
		if err := os.WriteFile(gpath, []byte(g.Text), 0o644); err != nil {
			c.Violate("harness/write-grammar", err.Error(), nil)
			return nil
		}
		so, se, herr := genrun.RunHelper(c.WorkDir, []string{gpath}, 1)
		os.Remove(gpath)
		if herr != nil {
			files["helper_stderr.txt"] = se
			c.Count("generation_process_died", 1)
			phase := "compile"
			if strings.Contains(so, "\tcompiled\n") {
				phase = "generate"
			}
			if phase == "compile" && sigPrefix == "nocompile:" {
				// the caller's property starts after a successful compilation
				c.Count("compile_process_died:"+c17CrashSkeleton(se), 1)
				continue
			}
			c.Violate(strings.TrimPrefix(sigPrefix, "nocompile:")+phase+"/process-died/"+c17CrashSkeleton(se),
				fmt.Sprintf("the process running compiler.Compile + gen.Generate died in phase "+phase+" (%v)\noptions: %s\nfeatures: %s\nstderr:\n%s",
					herr, c17VecString(vec), strings.Join(g.Features, ","), tailString(se, 3000)), files)
			continue
		}
		if strings.Contains(so, "\tcompile-error\t") {
			msg := so[strings.Index(so, "\tcompile-error\t")+len("\tcompile-error\t"):]
			c.Count("grammars_rejected", 1)
			c.Count("reject:"+fw.Skeleton(c17RejectReason(msg)), 1)
			if os.Getenv("VERIF_C17_DUMP") == "" {
				continue
			}
		}
		var pkg *genrun.Pkg
		var cerr, gerr error
		ok := c.Guard(strings.TrimPrefix(sigPrefix, "nocompile:")+"generate", files, func() {
			pkg, cerr, gerr = genrun.GenerateNamed(name, name+".tm", g.Text)
		})
		if !ok {
			return nil
		}
		if cerr != nil {
			if os.Getenv("VERIF_C17_DUMP") != "" {
				fmt.Fprintf(os.Stderr, "REJECTED %s:\n", name)
				for _, e := range status.FromError(cerr) {
					fmt.Fprintf(os.Stderr, "   %v\n", e)
				}
				if os.Getenv("VERIF_C17_DUMP") == "2" {
					fmt.Fprintf(os.Stderr, "%s\n", g.Text)
				}
			} else {
				// the helper accepted what the in-process compiler rejects
				c.Violate(strings.TrimPrefix(sigPrefix, "nocompile:")+"compile-verdict-differs-between-processes", cerr.Error(), files)
			}
			continue
		}
		c.Count("grammars_accepted", 1)
		if gerr != nil {
			c.Violate(strings.TrimPrefix(sigPrefix, "nocompile:")+"generate-error/"+fw.Skeleton(gerr.Error()),
				"compiler.Compile accepted the grammar but gen.Generate failed: "+gerr.Error()+"\noptions: "+c17VecString(vec), files)
			return nil
		}
		c17AddUserStubs(c, pkg)
		return &c17Pkg{pkg: pkg, g: g, vec: vec}
	}
	c.Count("vectors_without_accepted_grammar", 1)
	return nil
}

var c17QuotedRE = regexp.MustCompile(`'[^']*'|"[^"]*"`)

func c17RejectReason(msg string) string {
	l := firstLine(msg)
	// drop "file:line:col: "
	if i := strings.Index(l, ": "); i >= 0 && strings.Contains(l[:i], ".tm") {
		l = l[i+2:]
	}
	l = c17QuotedRE.ReplaceAllString(l, "Q")
	if len(l) > 60 {
		l = l[:60]
	}
	return l
}

func c17Run(c *fw.Ctx) {
	per := c17PerCase(c.Tier)
	var pkgs []*c17Pkg
	st := time.Now()
	defer stage(&st, "c17 build+vet")
	for j := 0; j < per; j++ {
		t := c.Case*per + j
		name := fmt.Sprintf("g%04d", t)
		if p := c17Generate(c, j, t, name, "", nil); p != nil {
			pkgs = append(pkgs, p)
		}
	}
	pkgs = append(pkgs, c17BoundaryPackages(c)...)
	stage(&st, "c17 generate")
	c17BuildAndJudge(c, pkgs, true)
}

// c17BuildAndJudge writes the packages into one module, builds them and reports
// every diagnostic. Returns the set of package names that built.
func c17BuildAndJudge(c *fw.Ctx, pkgs []*c17Pkg, vet bool) map[string]bool {
	okSet := map[string]bool{}
	if len(pkgs) == 0 {
		return okSet
	}
	dir := filepath.Join(c.WorkDir, fmt.Sprintf("c17mod%d", c.Case))
	os.RemoveAll(dir)
	defer os.RemoveAll(dir)
	var gp []*genrun.Pkg
	for _, p := range pkgs {
		gp = append(gp, p.pkg)
	}
	if err := genrun.WritePlainModule(dir, gp); err != nil {
		c.Violate("harness/write-module", err.Error(), nil)
		return okSet
	}
	// A package that cannot even be loaded (import of a package that was not
	// generated) makes `go build ./...` stop before compiling anything: such
	// packages are recorded, moved out of the way and the build is repeated.
	byPkg := map[string][]genrun.Diag{}
	for round := 0; ; round++ {
		out, berr := genrun.GoTool(dir, nil, "build", "-gcflags=-e", "./...")
		d, other := genrun.ParseDiagnostics(out)
		if berr != nil && len(d) == 0 {
			c.Violate("harness/go-build/"+fw.Skeleton(firstLine(strings.Join(other, " | "))), "go build failed without attributable diagnostics:\n"+out, nil)
			return okSet
		}
		loadErr := false
		for name, ds := range d {
			for _, x := range ds {
				if strings.Contains(x.Msg, "is not in std") || strings.Contains(x.Msg, "no required module provides") || strings.Contains(x.Msg, "import cycle") {
					loadErr = true
					if byPkg[name] == nil {
						byPkg[name] = ds
						os.RemoveAll(filepath.Join(dir, name))
					}
					break
				}
			}
		}
		if !loadErr || round > len(pkgs) {
			for name, ds := range d {
				if byPkg[name] == nil {
					byPkg[name] = ds
				}
			}
			break
		}
		c.Count("build_rounds_repeated_after_load_error", 1)
	}
	var extra c17Extra
	for _, p := range pkgs {
		name := p.pkg.Name
		var mask uint32
		for i, b := range p.vec {
			if b {
				mask |= 1 << uint(i)
			}
		}
		extra.Vecs = append(extra.Vecs, mask)
		c.Eval(1)
		c.Count("packages_built", 1)
		c.Count("files_written", int64(len(p.pkg.Order)))
		if p.pkg.G.Parser != nil && p.pkg.G.Parser.Tables != nil {
			c.Count("packages_with_parser", 1)
		} else {
			c.Count("packages_lexer_only", 1)
		}
		for _, f := range p.g.Features {
			c.Count("feat:"+f, 1)
		}
		h := fnvString(p.g.Text)
		c.Distinct(fmt.Sprintf("%s|%s|%x", c17VecString(p.vec), strings.Join(p.g.Features, ","), h))
		diags := byPkg[name]
		if len(diags) == 0 {
			okSet[name] = true
			c.Count("packages_built_ok", 1)
			c.Sample(map[string]any{"options": c17VecString(p.vec), "features": p.g.Features, "files": p.pkg.Order})
			continue
		}
		c.Count("packages_build_failed", 1)
		repl := c17Replacements(p.pkg)
		repl["\x00pkg"] = name
		seen := map[string]bool{}
		nsig := 0
		for _, d := range diags {
			sig := "build/" + filepath.Base(d.File) + ": " + fw.Skeleton(c17Normalize(d.Msg, repl))
			if seen[sig] {
				continue
			}
			seen[sig] = true
			if f := os.Getenv("VERIF_C17_ONLYSIG"); f != "" && !strings.Contains(sig, f) {
				continue // development aid: look at one signature at a time
			}
			nsig++
			if nsig > 6 {
				c.Count("diagnostics_beyond_6_per_package", 1)
				continue
			}
			var pkgOut strings.Builder
			for _, dd := range diags {
				fmt.Fprintf(&pkgOut, "%s/%s:%d: %s\n", name, dd.File, dd.Line, dd.Msg)
			}
			files := map[string]string{"grammar.tm": p.g.Text, "build_output.txt": pkgOut.String()}
			if content, ok := p.pkg.Files[d.File]; ok {
				files["generated_"+strings.ReplaceAll(d.File, "/", "_")+".txt"] = content
			}
			detail := fmt.Sprintf("generated package does not build\noptions: %s\nfeatures: %s\n%s/%s:%d: %s\n    %s\nall diagnostics of the package:\n%s",
				c17VecString(p.vec), strings.Join(p.g.Features, ","), name, d.File, d.Line, d.Msg,
				genrun.SourceLine(p.pkg.Files[d.File], d.Line), pkgOut.String())
			c.Violate(sig, detail, files)
		}
	}
	c.Extra(&extra)
	if vet && len(okSet) > 0 {
		var args []string
		for n := range okSet {
			args = append(args, "./"+n+"/...")
		}
		sort.Strings(args)
		vout, verr := genrun.GoTool(dir, nil, append([]string{"vet"}, args...)...)
		c.Count("packages_vetted", int64(len(args)))
		if verr != nil {
			vd, _ := genrun.ParseDiagnostics(vout)
			var names []string
			for n := range vd {
				names = append(names, n)
			}
			sort.Strings(names)
			for _, n := range names {
				c.Count("vet_packages_with_findings", 1)
				seen := map[string]bool{}
				for _, d := range vd[n] {
					k := "vet:" + filepath.Base(d.File) + ": " + fw.Skeleton(d.Msg)
					if !seen[k] {
						seen[k] = true
						c.Count(k, 1)
					}
				}
			}
		}
	}
	return okSet
}

func fnvString(s string) uint64 {
	var h uint64 = 14695981039346656037
	for i := 0; i < len(s); i++ {
		h ^= uint64(s[i])
		h *= 1099511628211
	}
	return h
}

func tailString(s string, n int) string {
	if len(s) > n {
		return s[len(s)-n:]
	}
	return s
}

// c17CrashSkeleton extracts a stable description of why a helper process died.
func c17CrashSkeleton(stderr string) string {
	ls := strings.Split(strings.TrimSpace(stderr), "\n")
	for _, l := range ls {
		l = strings.TrimSpace(l)
		if strings.HasPrefix(l, "panic:") || strings.HasPrefix(l, "fatal error:") || strings.HasPrefix(l, "runtime: goroutine stack exceeds") {
			return fw.Skeleton(l)
		}
	}
	l := ls[len(ls)-1]
	if len(l) > 20 && l[4] == '/' && l[7] == '/' {
		l = l[20:] // log timestamp
	}
	return "exit: " + fw.Skeleton(l)
}

// c17AddUserStubs adds the hand-written files a generated package is documented
// (by the shipped grammars) to need: the node flag constants (compare
// parsers/test/consts.go: flags used in `-> Node/Flag` clauses are declared by the
// user as NodeFlags constants).
func c17AddUserStubs(c *fw.Ctx, p *genrun.Pkg) {
	g := p.G
	if g.Parser == nil || len(g.Parser.UsedFlags) == 0 {
		return
	}
	flags := g.AllFlags()
	var b strings.Builder
	name := g.Options.Package
	if i := strings.LastIndexByte(name, '/'); i >= 0 {
		name = name[i+1:]
	}
	fmt.Fprintf(&b, "package %s\n\n// Node flags (hand-written, like parsers/test/consts.go).\nconst (\n", name)
	for i, f := range flags {
		if i == 0 {
			fmt.Fprintf(&b, "\t%s NodeFlags = 1 << iota\n", f)
		} else {
			fmt.Fprintf(&b, "\t%s\n", f)
		}
	}
	b.WriteString(")\n")
	p.Extra = map[string]string{"zz_user_consts.go": b.String()}
	c.Count("packages_with_flag_constants_stub", 1)
}
