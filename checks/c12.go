package checks

import (
	"fmt"
	"math/rand"
	"os"
	"path/filepath"
	"sort"
	"strings"

	"github.com/inspirer/textmapper/parsers/js"
	jstok "github.com/inspirer/textmapper/parsers/js/token"
	"github.com/inspirer/textmapper/parsers/json"
	jsontok "github.com/inspirer/textmapper/parsers/json/token"
	"github.com/inspirer/textmapper/parsers/simple"
	simpletok "github.com/inspirer/textmapper/parsers/simple/token"
	"github.com/inspirer/textmapper/parsers/test"
	testtok "github.com/inspirer/textmapper/parsers/test/token"
	"github.com/inspirer/textmapper/parsers/tm"
	tmtok "github.com/inspirer/textmapper/parsers/tm/token"
	"verif/internal/fw"
	"verif/internal/genrun"
)

// C12 – tokenization always progresses, tiles the input and tracks lines.

type ltok struct {
	eoi       bool
	name      string
	s, e      int
	line, col int
}

type lexerUnderTest struct {
	name            string
	hasLine, hasCol bool
	skipsBOM        bool
	// run returns the observed tokens (up to limit Next calls; stops after the third EOI)
	run func(text string, limit int) []ltok
}

func repoRoot() string {
	if v := os.Getenv("VERIF_REPO"); v != "" {
		return v
	}
	return "/repo"
}

func collect(limit int, next func() ltok) []ltok {
	var out []ltok
	eois := 0
	for n := 0; n < limit; n++ {
		t := next()
		out = append(out, t)
		if t.eoi {
			eois++
			if eois == 3 {
				break
			}
		} else if eois > 0 {
			break
		}
	}
	return out
}

func shippedLexers() []lexerUnderTest {
	return []lexerUnderTest{
		{name: "tm", hasLine: true, hasCol: true, skipsBOM: true, run: func(text string, limit int) []ltok {
			var l tm.Lexer
			l.Init(text)
			return collect(limit, func() ltok {
				t := l.Next()
				s, e := l.Pos()
				return ltok{eoi: t == tmtok.EOI, name: t.String(), s: s, e: e, line: l.Line(), col: l.Column()}
			})
		}},
		{name: "js", hasLine: true, skipsBOM: true, run: func(text string, limit int) []ltok {
			var l js.Lexer
			l.Init(text)
			return collect(limit, func() ltok {
				t := l.Next()
				s, e := l.Pos()
				return ltok{eoi: t == jstok.EOI, name: t.String(), s: s, e: e, line: l.Line()}
			})
		}},
		{name: "js-tsx", hasLine: true, skipsBOM: true, run: func(text string, limit int) []ltok {
			var l js.Lexer
			l.Init(text)
			l.Dialect = js.TypescriptJsx
			return collect(limit, func() ltok {
				t := l.Next()
				s, e := l.Pos()
				return ltok{eoi: t == jstok.EOI, name: t.String(), s: s, e: e, line: l.Line()}
			})
		}},
		{name: "json", hasLine: true, skipsBOM: true, run: func(text string, limit int) []ltok {
			var l json.Lexer
			l.Init(text)
			return collect(limit, func() ltok {
				t := l.Next()
				s, e := l.Pos()
				return ltok{eoi: t == jsontok.EOI, name: t.String(), s: s, e: e, line: l.Line()}
			})
		}},
		{name: "test", skipsBOM: true, run: func(text string, limit int) []ltok {
			var l test.Lexer
			l.Init(text)
			return collect(limit, func() ltok {
				t := l.Next()
				s, e := l.Pos()
				return ltok{eoi: t == testtok.EOI, name: t.String(), s: s, e: e}
			})
		}},
		{name: "simple", hasLine: true, skipsBOM: true, run: func(text string, limit int) []ltok {
			var l simple.Lexer
			l.Init(text)
			return collect(limit, func() ltok {
				t := l.Next()
				s, e := l.Pos()
				return ltok{eoi: t == simpletok.EOI, name: t.String(), s: s, e: e, line: l.Line()}
			})
		}},
	}
}

const bom = "\xef\xbb\xbf"

// judgeTokens applies the C12 oracle to one observed token sequence.
// lexAlone re-lexes a gap and reports whether it produced nothing but EOI.
func judgeTokens(c *fw.Ctx, lname, text string, toks []ltok, hasLine, hasCol bool, gapIsSpace func(gap string) (bool, string)) {
	files := map[string]string{"input.txt": text}
	report := func(sig, detail string) {
		c.Violate(lname+"/"+sig, fmt.Sprintf("lexer %s, input %q\n%s\ntokens: %s", lname, clip(text, 400), detail, toksDump(toks, 40)), files)
	}
	c.Eval(1)
	// 1. termination: EOI within len+2 calls
	firstEOI := -1
	for i, t := range toks {
		if t.eoi {
			firstEOI = i
			break
		}
	}
	if firstEOI < 0 {
		report("no-eoi-within-len+2-calls", fmt.Sprintf("%d calls to Next() returned no EOI (input has %d bytes)", len(toks), len(text)))
		return
	}
	// 2. EOI is sticky and at the end
	for i := firstEOI; i < len(toks); i++ {
		if !toks[i].eoi {
			report("eoi-not-sticky", fmt.Sprintf("call %d after EOI returned %s[%d,%d]", i, toks[i].name, toks[i].s, toks[i].e))
			return
		}
		if toks[i].s != len(text) || toks[i].e != len(text) {
			report("eoi-not-at-end", fmt.Sprintf("EOI reported at [%d,%d], input length %d", toks[i].s, toks[i].e, len(text)))
			return
		}
	}
	if len(toks)-firstEOI < 3 {
		report("eoi-not-repeated", "fewer than 3 EOIs observed")
		return
	}
	prevEnd := 0
	gaps := 0
	for i, t := range toks[:firstEOI+1] {
		if !t.eoi && t.e <= t.s {
			report("empty-token", fmt.Sprintf("token %d %s[%d,%d] is empty", i, t.name, t.s, t.e))
			return
		}
		if t.s < prevEnd {
			report("tokens-overlap-or-out-of-order", fmt.Sprintf("token %d %s[%d,%d] starts before the previous token ends (%d)", i, t.name, t.s, t.e, prevEnd))
			return
		}
		if t.e > len(text) {
			report("token-beyond-input", fmt.Sprintf("token %d %s[%d,%d], input length %d", i, t.name, t.s, t.e, len(text)))
			return
		}
		if t.s > prevEnd {
			gap := text[prevEnd:t.s]
			if prevEnd == 0 && strings.HasPrefix(gap, bom) {
				gap = gap[len(bom):]
			}
			if gap != "" {
				gaps++
				if ok, what := gapIsSpace(gap); !ok {
					report("gap-is-not-skipped-space", fmt.Sprintf("text %q between offsets %d and %d was skipped, but lexed on its own it yields %s", clip(gap, 80), prevEnd, t.s, what))
					return
				}
			}
		}
		if hasLine {
			want := 1 + strings.Count(text[:t.s], "\n")
			if t.line != want {
				ctx := "first-line"
				if want > 1 {
					ctx = "later-line"
				}
				dir := "too-small"
				if t.line > want {
					dir = "too-large"
				}
				report(fmt.Sprintf("line/%s/%s", dir, ctx), fmt.Sprintf("token %d %s[%d,%d]: Line()=%d, first byte is on line %d", i, t.name, t.s, t.e, t.line, want))
				return
			}
		}
		if hasCol {
			want := t.s - strings.LastIndexByte(text[:t.s], '\n')
			if t.col != want {
				ctx := "first-line"
				if strings.Contains(text[:t.s], "\n") {
					ctx = "later-line"
				}
				delta := "other"
				if t.col-want == 1 {
					delta = "+1"
				}
				// was the line of this token entered inside a multi-line token (e.g. a code block)?
				if nl := strings.LastIndexByte(text[:t.s], '\n'); nl >= 0 {
					for _, p := range toks[:i] {
						if !p.eoi && p.s <= nl && nl < p.e {
							ctx = "line-entered-inside-" + p.name + "-token"
						}
					}
				}
				report(fmt.Sprintf("column/delta=%s/%s", delta, ctx), fmt.Sprintf("token %d %s[%d,%d]: Column()=%d, expected %d (bytes, 1-based)", i, t.name, t.s, t.e, t.col, want))
				return
			}
		}
		prevEnd = t.e
	}
	c.Count("tokens_checked", int64(firstEOI))
	c.Count("gaps_relexed", int64(gaps))
	if hasLine {
		c.Count("line_checks", int64(firstEOI+1))
	}
	if hasCol {
		c.Count("column_checks", int64(firstEOI+1))
	}
}

func clip(s string, n int) string {
	if len(s) > n {
		return s[:n] + "..."
	}
	return s
}

func toksDump(toks []ltok, n int) string {
	var b strings.Builder
	for i, t := range toks {
		if i >= n {
			b.WriteString("...")
			break
		}
		fmt.Fprintf(&b, "%s[%d,%d]@%d:%d ", t.name, t.s, t.e, t.line, t.col)
	}
	return b.String()
}

var hostileAlphabet = []string{"a", "b", "Z", "0", "9", "_", " ", " ", "\n", "\n", "\r\n", "\t", "\"", "'", "\\", "/", "*", "{", "}", "(", ")", "[", "]", "<", ">", "=", "-", "+", ".", ",", ";", ":", "#", "%", "$", "@", "`", "|", "&", "!", "?", "~", "^",
	"é", "я", "😀", "\u2028", "\xff", "\xc3", "\xe2\x82", bom, "\x00", "/*", "*/", "//", "<!--", "-->", "${", "%%", "::", "->", "0x", "1e", "\\u", "\\u{", ",.", ";.", ",..", ";..", " \n.", "\n\n..", "\n\n...", "\n=", "\n\n=>", ".-", ":-", ":--"}

var fragmentPool = map[string][]string{
	"tm":     {"language x(go);", ":: lexer", ":: parser", "id: /[a-z]+/ (class)", "'if': /if/", "space: /[ \\t]+/ (space)", "%input a, b no-eoi;", "a -> A: b? (c | d)+ ;", "{ $$ = $1 }", "{ if (x) { y(\"}\") } }", "# comment\n", "/* c */", "%left '+' '-';", "set(first A & ~B)", "(?= A & !B)", "'\\''", "\"str\\\"ing\"", "/re\\/gex[/]/", "<flag X = true>", "[A && !B]", "%%\n{{ template }}"},
	"js":     {"var x = 1;", "let y = `a${b}c`;", "x = a / b / c;", "r = /ab+c/gi;", "if (a) { b() } else c", "// line\n", "/* block */", "'str\\'ing'", "\"s\"", "0x1F", "1.5e-3", "1n", "a?.b ?? c", "class A extends B { #p = 1 }", "<div a='b'>{x}</div>", "x => x*2", "a\n++b", "<!-- html comment\n", "--> also\n", "`unterminated ${", "\\u0061bc", "async function* f() {}", "a <b> c", "type T = A<B<C>>;"},
	"json":   {"{", "}", "[", "]", ":", ",", "\"str\"", "\"\\u00e9\\n\"", "123", "-1.5e+10", "true", "false", "null", "/* c */", "abc", "A", "B", "\"unterminated", "/* open"},
	"test":   {"test", "{", "}", "(", ")", "[", "]", "decl1", "decl2", "eval", "as", "if", "else", "idt", "-", "->", ".", "...", ",", ":", "+", "*", "\\u0041bc", "'a'", "'\\''", "\"<a,b>\"", "<x>", "123", "0", "077", "// c\n", "/* multi\nline */", "/* open", "\\", "!", "#", "Z", "zzz", "/re/"},
	"simple": {"simple", "a", "b", "c", "\\abc", "\\é", " ", "\n", "\\", "d"},
}

func genLexText(r *rand.Rand, lang string, corpus []string) string {
	switch r.Intn(10) {
	case 0, 1, 2: // fragment assembly
		fr := fragmentPool[lang]
		if fr == nil {
			fr = fragmentPool["js"]
		}
		var b strings.Builder
		for i, n := 0, 1+r.Intn(12); i < n; i++ {
			if r.Intn(6) == 0 {
				b.WriteString(hostileAlphabet[r.Intn(len(hostileAlphabet))])
			} else {
				b.WriteString(fr[r.Intn(len(fr))])
			}
			b.WriteString([]string{"", " ", "\n", "  ", "\r\n", "\t"}[r.Intn(6)])
		}
		return b.String()
	case 3, 4, 5, 6: // corpus slice + mutations
		if len(corpus) == 0 {
			break
		}
		src := corpus[r.Intn(len(corpus))]
		if len(src) > 0 {
			s := r.Intn(len(src))
			e := s + r.Intn(min(len(src)-s, []int{40, 400, 4000}[r.Intn(3)])+1)
			src = src[s:e]
		}
		bs := []byte(src)
		for k := r.Intn(5); k > 0 && len(bs) > 0; k-- {
			p := r.Intn(len(bs))
			switch r.Intn(4) {
			case 0:
				bs = append(bs[:p], bs[p+1:]...)
			case 1:
				ins := hostileAlphabet[r.Intn(len(hostileAlphabet))]
				bs = append(bs[:p:p], append([]byte(ins), bs[p:]...)...)
			case 2:
				bs[p] ^= byte(1 << uint(r.Intn(8)))
			case 3:
				q := p + r.Intn(len(bs)-p)
				bs = append(bs[:q:q], append(append([]byte(nil), bs[p:q]...), bs[q:]...)...)
			}
		}
		if r.Intn(8) == 0 {
			return bom + string(bs)
		}
		return string(bs)
	}
	var b strings.Builder
	if r.Intn(6) == 0 {
		b.WriteString(bom)
	}
	for i, n := 0, r.Intn(60); i < n; i++ {
		b.WriteString(hostileAlphabet[r.Intn(len(hostileAlphabet))])
	}
	return b.String()
}

func loadCorpus(globs ...string) []string {
	var out []string
	for _, g := range globs {
		ms, _ := filepath.Glob(filepath.Join(repoRoot(), g))
		sort.Strings(ms)
		for _, m := range ms {
			if b, err := os.ReadFile(m); err == nil {
				out = append(out, string(b))
			}
		}
	}
	return out
}

func c12Shipped(c *fw.Ctx, lx lexerUnderTest, n int) {
	var corpus []string
	switch lx.name {
	case "tm":
		corpus = loadCorpus("parsers/*/*.tm", "compiler/testdata/*")
	case "js", "js-tsx":
		corpus = loadCorpus("parsers/js/parser_test.go", "parsers/js/lexer_test.go", "vscode-ext/*.js", "vscode-ext/src/*.ts")
	case "json":
		corpus = loadCorpus("parsers/json/*_test.go", "vscode-ext/*.json")
	case "test":
		corpus = loadCorpus("parsers/test/*_test.go")
	case "simple":
		corpus = loadCorpus("parsers/simple/*_test.go")
	}
	lang := strings.TrimSuffix(lx.name, "-tsx")
	gapIsSpace := func(gap string) (bool, string) {
		ts := lx.run(gap, len(gap)+4)
		if len(ts) > 0 && ts[0].eoi {
			return true, ""
		}
		if len(ts) == 0 {
			return false, "nothing"
		}
		return false, fmt.Sprintf("token %s[%d,%d]", ts[0].name, ts[0].s, ts[0].e)
	}
	for i := 0; i < n; i++ {
		text := genLexText(c.R, lang, corpus)
		if i == 0 {
			c.Sample(map[string]any{"lexer": lx.name, "text": clip(text, 200)})
		}
		var toks []ltok
		if !c.Guard(lx.name, map[string]string{"input.txt": text}, func() { toks = lx.run(text, len(text)+4) }) {
			continue
		}
		judgeTokens(c, lx.name, text, toks, lx.hasLine, lx.hasCol, gapIsSpace)
		c.Count("texts_"+lx.name, 1)
		if strings.Contains(text, "\n") && len(toks) > 4 {
			c.Distinct(lx.name + "\x00" + text)
		}
	}
}

// --- generated lexers

var lexRulePool = []string{
	"ident: /[a-zA-Z_][a-zA-Z0-9_]*/ (class)",
	"num: /[0-9]+/",
	"hex: /0x[0-9a-fA-F]+/",
	"float: /[0-9]+\\.[0-9]+([eE][+-]?[0-9]+)?/",
	"str: /\"([^\"\\\\\\n]|\\\\.)*\"/",
	"chr: /'([^'\\\\\\n]|\\\\.)'/",
	"blockComment: /\\/\\*([^*]|\\*+[^*\\/])*\\*+\\// (space)",
	"lineComment: /\\/\\/[^\\n]*/ (space)",
	"hashComment: /#[^\\n]*\\n/ (space)",
	"uident: /[\\p{Lu}\\p{Ll}]+[0-9]*/",
	"cyr: /[а-яА-Я]+/",
	"emoji: /[\\x{1F600}-\\x{1F64F}]+/",
	"op3: /\\.\\.\\./",
	"'..': /\\.\\./",
	"'.': /\\./",
	"'->': /->/",
	"'-': /-/",
	"'+': /\\+/",
	"'++': /\\+\\+/",
	"'{': /\\{/",
	"'}': /\\}/",
	"'(': /\\(/",
	"')': /\\)/",
	"'<=': /<=/",
	"'<': /</",
	"'<<=': /<<=/",
	"multi: /<<[a-z]*\\n([^\\n]*\\n)*>>/",
	"abab: /(ab)+c/",
	"aab: /a{2,4}b/",
	"'\\\\': /\\\\/",
	"wsdots: /[ \\t\\r\\n]+\\.\\.\\./",
	"nlarrow: /\\n+=>/",
	"semi: /;/ (space)",
	"comma: /,/",
	"crange: /[,;]\\.\\./",
	"dots2: /[.:]--/",
	"colon: /:/ (space)",
	// patterns without any instruction: must be rejected by the compiler ("accepts empty text");
	// if such a rule is ever accepted the lexer stops making progress
	"empt1: /()/",
	"empt2: /x{0}/",
	"empt3: /(y{0,0})/",
}

var lexKeywords = []string{"if", "else", "while", "for", "été", "return", "a", "abc", "x1", "_"}

func genLexerGrammar(r *rand.Rand, pkg string) (text string, opts map[string]bool) {
	opts = map[string]bool{}
	var b strings.Builder
	fmt.Fprintf(&b, "language %s(go);\n\nlang = \"%s\"\npackage = \"w/%s\"\ngenParser = false\n", pkg, pkg, pkg)
	for _, o := range []string{"tokenLine", "tokenColumn", "tokenLineOffset", "scanBytes", "nonBacktracking", "skipByteOrderMark"} {
		v := r.Intn(2) == 0
		if o == "tokenLine" && r.Intn(4) > 0 {
			v = true
		}
		if o == "nonBacktracking" && r.Intn(3) > 0 {
			v = false
		}
		opts[o] = v
		fmt.Fprintf(&b, "%s = %v\n", o, v)
	}
	b.WriteString("\n:: lexer\n\n")
	spaces := []string{"ws: /[ \\t\\r\\n]+/ (space)", "ws: /[ \\t]+/ (space)\nnl: /\\r?\\n/ (space)", "ws: /[ \\t\\r\\n\\x00]+/ (space)"}
	b.WriteString(spaces[r.Intn(len(spaces))] + "\n")
	perm := r.Perm(len(lexRulePool))
	n := 3 + r.Intn(12)
	hasIdent := false
	allowEmpty := r.Intn(4) == 0
	for _, i := range perm[:n] {
		rule := lexRulePool[i]
		if opts["scanBytes"] && (strings.Contains(rule, "\\p{") || strings.Contains(rule, "а-я") || strings.Contains(rule, "\\x{1F")) {
			continue
		}
		if strings.HasPrefix(rule, "empt") && !allowEmpty {
			continue
		}
		if strings.HasPrefix(rule, "ident:") {
			hasIdent = true
		}
		b.WriteString(rule + "\n")
	}
	if hasIdent {
		for _, k := range lexKeywords {
			if r.Intn(2) == 0 {
				if opts["scanBytes"] && k == "été" {
					continue
				}
				fmt.Fprintf(&b, "'%s': /%s/\n", k, k)
			}
		}
	}
	return b.String(), opts
}

func c12Generated(c *fw.Ctx, nGrammars, nTexts int) {
	var pkgs []*genrun.Pkg
	var optsOf []map[string]bool
	for i := 0; len(pkgs) < nGrammars && i < nGrammars*6; i++ {
		name := fmt.Sprintf("l%04d", len(pkgs))
		text, opts := genLexerGrammar(c.R, name)
		c.Note(map[string]string{"grammar.tm": text})
		pkg, cerr, gerr := genrun.Generate(name, text)
		if cerr != nil {
			c.Count("lexer_grammars_rejected", 1)
			c.Count("reject:"+fw.Skeleton(firstLine(cerr.Error())), 1)
			continue
		}
		if gerr != nil {
			c.Violate("generate-failed/"+fw.Skeleton(gerr.Error()), gerr.Error()+"\n"+text, map[string]string{"grammar.tm": text})
			continue
		}
		pkgs = append(pkgs, pkg)
		optsOf = append(optsOf, opts)
	}
	if len(pkgs) == 0 {
		return
	}
	_, bin := buildModule(c, pkgs, false)
	if bin == "" {
		return
	}
	type meta struct {
		pkg  int
		text string
		gap  bool
	}
	var jobs []genrun.Job
	var metas []meta
	corpus := loadCorpus("parsers/*/*.tm", "parsers/test/*_test.go")
	for pi, p := range pkgs {
		for k := 0; k < nTexts; k++ {
			text := genLexText(c.R, []string{"js", "test", "tm", "json"}[c.R.Intn(4)], corpus)
			if len(text) > 6000 {
				text = text[:6000]
			}
			metas = append(metas, meta{pkg: pi, text: text})
			jobs = append(jobs, genrun.Job{ID: len(jobs), Pkg: p.Name, Mode: "lex", Text: text})
		}
	}
	res, err := genrun.Run(bin, c.WorkDir, jobs, 900)
	if err != nil {
		c.Violate("harness/runner/"+fw.Skeleton(err.Error()), err.Error(), nil)
		return
	}
	conv := func(t *genrun.Trace) []ltok {
		out := make([]ltok, len(t.Toks))
		for i, k := range t.Toks {
			out[i] = ltok{eoi: k.T == 0, name: k.Name, s: k.S, e: k.E, line: k.Line, col: k.Col}
		}
		return out
	}
	// second round: re-lex all gaps
	type gapKey struct {
		pkg int
		gap string
	}
	gapJobs := map[gapKey]int{}
	var jobs2 []genrun.Job
	for id, m := range metas {
		t := res.Traces[id]
		if t == nil || t.Panic != "" {
			continue
		}
		prev := 0
		for _, k := range t.Toks {
			if k.S > prev && k.S <= len(m.text) {
				gap := m.text[prev:k.S]
				if prev == 0 && optsOf[m.pkg]["skipByteOrderMark"] && strings.HasPrefix(gap, bom) {
					gap = gap[len(bom):]
				}
				gk := gapKey{m.pkg, gap}
				if _, ok := gapJobs[gk]; !ok && gap != "" {
					gapJobs[gk] = len(jobs2)
					jobs2 = append(jobs2, genrun.Job{ID: len(jobs2), Pkg: pkgs[m.pkg].Name, Mode: "lex", Text: gap})
				}
			}
			if k.E > prev {
				prev = k.E
			}
		}
	}
	res2, err := genrun.Run(bin, c.WorkDir, jobs2, 900)
	if err != nil {
		c.Violate("harness/runner/"+fw.Skeleton(err.Error()), err.Error(), nil)
		return
	}
	for _, id := range append(append([]int(nil), res.Crashed...), res.CPUExceeded...) {
		m := metas[id]
		c.Violate("generated-lexer/crash-or-hang", fmt.Sprintf("runner died while lexing %q\n%s", clip(m.text, 300), res.Stderr), map[string]string{"grammar.tm": pkgs[m.pkg].Text, "input.txt": m.text})
	}
	for id, m := range metas {
		t := res.Traces[id]
		if t == nil {
			continue
		}
		if t.Panic != "" {
			c.Violate("generated-lexer/panic/"+fw.Skeleton(firstLine(t.Panic)), t.Panic, map[string]string{"grammar.tm": pkgs[m.pkg].Text, "input.txt": m.text})
			continue
		}
		o := optsOf[m.pkg]
		before := 0
		gapIsSpace := func(gap string) (bool, string) {
			j, ok := gapJobs[gapKey{m.pkg, gap}]
			if !ok || res2.Traces[j] == nil {
				return true, "" // not observed: do not judge
			}
			ts := res2.Traces[j].Toks
			if len(ts) > 0 && ts[0].T == 0 {
				return true, ""
			}
			if len(ts) == 0 {
				return false, "nothing"
			}
			return false, fmt.Sprintf("token %s[%d,%d]", ts[0].Name, ts[0].S, ts[0].E)
		}
		_ = before
		name := "generated"
		judgeTokensGen(c, name, pkgs[m.pkg].Text, m.text, conv(t), o["tokenLine"], o["tokenColumn"], gapIsSpace)
		c.Count("texts_generated_lexers", 1)
		if strings.Contains(m.text, "\n") && len(t.Toks) > 4 {
			c.Distinct(fmt.Sprintf("gen/%d/%s", m.pkg, m.text))
		}
	}
	for _, o := range optsOf {
		for k, v := range o {
			if v {
				c.Count("genopt_"+k, 1)
			}
		}
	}
}

// judgeTokensGen wraps judgeTokens adding the grammar to violation files.
func judgeTokensGen(c *fw.Ctx, lname, grammar, text string, toks []ltok, hasLine, hasCol bool, gapIsSpace func(string) (bool, string)) {
	sub := &fw.Ctx{}
	_ = sub
	// judgeTokens attaches only the input; add the grammar by noting it first
	c.Note(map[string]string{"grammar.tm": grammar, "input.txt": text})
	judgeTokens(c, lname, text, toks, hasLine, hasCol, gapIsSpace)
}

func init() {
	fw.Register(&fw.Check{
		ID:          "C12",
		Rule:        "cases 0..5: one shipped lexer each (tm, js, js in TypescriptJsx dialect, json, test, simple; imported from the tree under test) on batches of texts: assemblies of language fragments, slices of corpus files (shipped grammars, test files) with byte-level mutations (delete/insert hostile fragment/bit flip/duplicate), and strings over a hostile alphabet (BOMs, CR/LF, invalid and truncated UTF-8, NUL, unterminated comments/strings/templates/code blocks); remaining cases: random lexer grammars (pool of 30 rule shapes incl. comments, strings, overlapping operators, Unicode classes, keywords under a (class) rule; options tokenLine/tokenColumn/tokenLineOffset/scanBytes/nonBacktracking/skipByteOrderMark) generated, built and run on the same kind of texts. Oracle per token sequence: EOI within len+2 calls, EOI sticky at [len,len], other tokens non-empty, ordered, non-overlapping, inside the input; every skipped gap (after an optional BOM at 0), lexed on its own by the same lexer, yields EOI only; Line()==1+count(newlines before start), Column()==start-lastNewline (bytes, 1-based). Text counts as non-trivial when it has a newline and more than 4 tokens; distinct by text",
		Assumptions: []string{"a skipped gap is judged by re-lexing it from the initial lexer state; lexers whose space rules depend on the lexer state could in principle be misjudged (none of the shipped ones is so far)"},
		Cases: func(tier string) int {
			if tier == "thorough" {
				return 6*20 + 24
			}
			return 6*2 + 4
		},
		Run: func(c *fw.Ctx) {
			lx := shippedLexers()
			nShipped := 12
			if c.Tier == "thorough" {
				nShipped = 120
			}
			if c.Case < nShipped {
				n := 1500
				c12Shipped(c, lx[c.Case%6], n)
				return
			}
			c12Generated(c, 8, 250)
		},
		CPUBudget:        600,
		MinNontrivial:    func(string) int { return 5000 },
		RequiredCounters: []string{"tokens_checked", "gaps_relexed", "line_checks", "column_checks", "texts_tm", "texts_js", "texts_js-tsx", "texts_json", "texts_test", "texts_simple", "texts_generated_lexers", "genopt_tokenColumn", "genopt_scanBytes"},
	})
}
