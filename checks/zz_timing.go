package checks

import (
	"fmt"
	"os"
	"time"
)

// stage prints wall-clock stage timings to stderr when VERIF_TIMING is set (diagnostics only).
func stage(start *time.Time, name string) {
	if os.Getenv("VERIF_TIMING") != "" {
		fmt.Fprintf(os.Stderr, "timing %s: %v\n", name, time.Since(*start))
		*start = time.Now()
	}
}
