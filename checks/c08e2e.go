package checks

import (
	"fmt"
	"math/rand"
	"strings"

	"verif/internal/fw"
	"verif/internal/genrun"
)

// End-to-end half of C08: the generated decision code (applyRule for decisions in
// the main loop, lookaheadRule for decisions taken while another lookahead
// predicate is being evaluated).

func c08E2ECases(tier string) int {
	if tier == "thorough" {
		return 12
	}
	return 3
}

type c08Leaf struct {
	lits []int // literal = pred*2 + (1 if negated)
}

// c08Tree builds a random decision tree over predicates 0..n-1 (levels in index
// order, predicates may be skipped) and returns its leaves (mutually exclusive and
// jointly exhaustive conjunctions, consistently ordered).
func c08Tree(r *rand.Rand, n int) []c08Leaf {
	var leaves []c08Leaf
	var rec func(level int, path []int)
	rec = func(level int, path []int) {
		if level >= n || (len(path) > 0 && r.Intn(4) == 0) {
			leaves = append(leaves, c08Leaf{append([]int(nil), path...)})
			return
		}
		if len(path) < level && r.Intn(3) == 0 { // skip this predicate on this branch
			rec(level+1, path)
			return
		}
		rec(level+1, append(append([]int(nil), path...), level*2))
		rec(level+1, append(append([]int(nil), path...), level*2+1))
	}
	for len(leaves) < 2 || len(leaves) > 5 {
		leaves = nil
		rec(0, nil)
	}
	return leaves
}

func (l c08Leaf) holds(mask int) bool {
	for _, lit := range l.lits {
		bit := mask>>(uint(lit/2))&1 == 1
		if bit == (lit%2 == 1) {
			return false
		}
	}
	return true
}

type c08E2EGrammar struct {
	text    string
	leaves  []c08Leaf
	nPred   int
	nested  bool
	opts    string
	recCanc bool
	recMini bool
	plain   bool // a plain alternative 'E Tok ke' (E empty) competes with the predicate set; needs lalr(2)
}

func (g c08E2EGrammar) kind() string {
	k := "direct"
	if g.nested {
		k = "nested-in-predicate"
	}
	if g.plain {
		k = "plain-rule-vs-predicates-lalr2/" + k
	}
	return k
}

func c08E2EGrammarText(r *rand.Rand, pkg string) c08E2EGrammar {
	n := 1 + r.Intn(3)
	leaves := c08Tree(r, n)
	nested := r.Intn(2) == 0
	var b strings.Builder
	fmt.Fprintf(&b, "language %s(go);\n\nlang = \"%s\"\npackage = \"w/%s\"\neventBased = true\n", pkg, pkg, pkg)
	canc, rec, opt := r.Intn(2) == 0, r.Intn(2) == 0, r.Intn(2) == 0
	plain := r.Intn(4) == 0
	if plain {
		opt = false // optimizeTables cannot encode lalr(k) decisions
	}
	if nested {
		rec = true // a decision inside a predicate needs recursive lookaheads
	}
	var opts []string
	if canc {
		opts = append(opts, "cancellable = true")
	}
	if rec {
		opts = append(opts, "recursiveLookaheads = true")
	}
	if opt {
		opts = append(opts, "optimizeTables = true")
	}
	// minimizeDFA merges the final states of the predicate inputs, which the generated
	// lookahead() must not confuse with each other (memoization of recursive lookaheads)
	mini := r.Intn(2) == 0
	if mini {
		opts = append(opts, "minimizeDFA = true")
	}
	for _, o := range opts {
		b.WriteString(o + "\n")
	}
	if plain {
		opts = append(opts, "lalr(2)")
	}
	b.WriteString("\n:: lexer\n\nspace: /[ \\t\\r\\n]+/ (space)\n'x': /x/\n'z': /z/\n'e': /e/\n")
	for m := 0; m < 1<<uint(n); m++ {
		fmt.Fprintf(&b, "'t%d': /t%d/\n", m, m)
	}
	for j := range leaves {
		fmt.Fprintf(&b, "'k%d': /k%d/\n", j, j)
	}
	if plain {
		b.WriteString("'ke': /ke/\n\n:: parser lalr(2)\n\n%input Z;\n\nE : %empty ;\n\n")
	} else {
		b.WriteString("\n:: parser\n\n%input Z;\n\n")
	}
	if nested {
		b.WriteString("Z -> Root :\n    (?= Q) 'x' Inner 'e' -> OutA\n  | (?= !Q) 'x' 'z' -> OutB\n;\n\nQ :\n    'x' Inner 'e' ;\n\n")
	} else {
		b.WriteString("Z -> Root :\n    'x' Inner 'e' ;\n\n")
	}
	b.WriteString("Inner :\n")
	for j, l := range leaves {
		if j == 0 {
			b.WriteString("    ")
		} else {
			b.WriteString("  | ")
		}
		if len(l.lits) > 0 {
			b.WriteString("(?= ")
			for k, lit := range l.lits {
				if k > 0 {
					b.WriteString(" & ")
				}
				if lit%2 == 1 {
					b.WriteString("!")
				}
				fmt.Fprintf(&b, "P%d", lit/2)
			}
			b.WriteString(") ")
		}
		fmt.Fprintf(&b, "Tok 'k%d' -> Alt%d\n", j, j)
	}
	if plain {
		b.WriteString("  | E Tok 'ke' -> AltE\n")
	}
	b.WriteString(";\n\nTok :\n")
	for m := 0; m < 1<<uint(n); m++ {
		if m == 0 {
			b.WriteString("    ")
		} else {
			b.WriteString("  | ")
		}
		fmt.Fprintf(&b, "'t%d'\n", m)
	}
	b.WriteString(";\n\n")
	for p := 0; p < n; p++ {
		fmt.Fprintf(&b, "P%d :\n", p)
		first := true
		for m := 0; m < 1<<uint(n); m++ {
			if m>>uint(p)&1 == 1 {
				if first {
					b.WriteString("    ")
				} else {
					b.WriteString("  | ")
				}
				first = false
				fmt.Fprintf(&b, "'t%d'\n", m)
			}
		}
		b.WriteString(";\n\n")
	}
	return c08E2EGrammar{text: b.String(), leaves: leaves, nPred: n, nested: nested, opts: strings.Join(opts, ","), recCanc: canc && rec, recMini: rec && mini, plain: plain}
}

func c08E2E(c *fw.Ctx) {
	var gs []c08E2EGrammar
	var pkgs []*genrun.Pkg
	for i := 0; len(pkgs) < 14 && i < 120; i++ {
		name := fmt.Sprintf("g%04d", len(pkgs))
		g := c08E2EGrammarText(c.R, name)
		c.Note(map[string]string{"grammar.tm": g.text})
		pkg, cerr, gerr := genrun.Generate(name, g.text)
		if cerr != nil {
			c.Count("e2e_grammars_rejected", 1)
			c.Count("e2e_reject:"+fw.Skeleton(firstLine(cerr.Error())), 1)
			continue
		}
		if gerr != nil {
			c.Violate("e2e/generate-failed/"+fw.Skeleton(gerr.Error()), gerr.Error()+"\n"+g.text, map[string]string{"grammar.tm": g.text})
			continue
		}
		gs = append(gs, g)
		pkgs = append(pkgs, pkg)
	}
	if len(pkgs) == 0 {
		return
	}
	_, bin := buildModule(c, pkgs, false)
	if bin == "" {
		return
	}
	type meta struct {
		g    int
		mask int
		z    bool
		text string
		tail int // which alternative's closing token the input carries
	}
	var jobs []genrun.Job
	var metas []meta
	for gi, g := range gs {
		for m := 0; m < 1<<uint(g.nPred); m++ {
			for j := range g.leaves {
				text := fmt.Sprintf("x t%d k%d e", m, j)
				metas = append(metas, meta{gi, m, false, text, j})
				jobs = append(jobs, genrun.Job{ID: len(jobs), Pkg: pkgs[gi].Name, Mode: "parse", Text: text})
			}
		}
		if g.plain {
			c.Count("e2e_grammars_plain_rule_vs_predicates_lalr2", 1)
			for m := 0; m < 1<<uint(g.nPred); m++ {
				text := fmt.Sprintf("x t%d ke e", m)
				metas = append(metas, meta{gi, m, false, text, -2})
				jobs = append(jobs, genrun.Job{ID: len(jobs), Pkg: pkgs[gi].Name, Mode: "parse", Text: text})
			}
		}
		if g.nested {
			metas = append(metas, meta{gi, 0, true, "x z", -1})
			jobs = append(jobs, genrun.Job{ID: len(jobs), Pkg: pkgs[gi].Name, Mode: "parse", Text: "x z"})
		}
		if g.recCanc {
			c.Count("e2e_grammars_recursive_cancellable", 1)
		}
		if g.recMini {
			c.Count("e2e_grammars_recursive_minimized", 1)
		}
	}
	c.Sample(map[string]any{"e2e_grammar": gs[0].text})
	res, err := genrun.Run(bin, c.WorkDir, jobs, 600)
	if err != nil {
		c.Violate("e2e/harness/"+fw.Skeleton(err.Error()), err.Error(), nil)
		return
	}
	for id, m := range metas {
		t := res.Traces[id]
		g := gs[m.g]
		if t == nil {
			c.Violate("e2e/generated-parser-died", res.Stderr, map[string]string{"grammar.tm": g.text, "input.txt": m.text})
			continue
		}
		c.Eval(1)
		var want []string
		if m.z {
			want = []string{"OutB"} // the rule-level node replaces the nonterminal's default node
		} else {
			leaf := -1
			for j, l := range g.leaves {
				if l.holds(m.mask) {
					if leaf >= 0 {
						leaf = -2
					} else {
						leaf = j
					}
				}
			}
			if leaf < 0 {
				continue // cannot happen for a decision tree
			}
			if m.tail == -2 {
				// the plain alternative does not depend on the predicates
				want = []string{"AltE"}
			} else if m.tail != leaf {
				// the input continues with another alternative's closing token: it is not a sentence
				if t.OK {
					c.Violate("e2e/non-sentence-accepted/"+g.kind(),
						fmt.Sprintf("options [%s], input %q: assignment mask %d selects Alt%d, the input closes with k%d; events %v\n%s", g.opts, m.text, m.mask, leaf, m.tail, t.Events, g.text),
						map[string]string{"grammar.tm": g.text, "input.txt": m.text})
				} else {
					c.Count("e2e_wrong_tail_rejected", 1)
				}
				continue
			} else {
				want = []string{fmt.Sprintf("Alt%d", leaf)}
			}
			if g.nested {
				want = append(want, "OutA")
			} else {
				want = append(want, "Root")
			}
		}
		var got []string
		for _, e := range t.Events {
			got = append(got, e.T)
		}
		kind := g.kind()
		if t.Panic != "" || !t.OK || strings.Join(got, ",") != strings.Join(want, ",") {
			sig := "e2e/wrong-alternative-selected/" + kind
			if !t.OK {
				sig = "e2e/input-rejected/" + kind
			}
			if t.Panic != "" {
				sig = "e2e/panic/" + kind
			}
			c.Violate(sig, fmt.Sprintf("options [%s], input %q (assignment mask %d)\nexpected events %v, got %v; ok=%v err=%q %s\n%s", g.opts, m.text, m.mask, want, got, t.OK, t.Err, firstLine(t.Panic), g.text),
				map[string]string{"grammar.tm": g.text, "input.txt": m.text})
			continue
		}
		c.Count("e2e_decisions_checked", 1)
		if g.nested {
			c.Count("e2e_nested_decisions_checked", 1)
		}
		c.Distinct("e2e/" + g.text + m.text)
	}
}
