package checks

import (
	"fmt"
	"math/rand"

	"github.com/inspirer/textmapper/lalr"
	"verif/internal/fw"
	"verif/internal/reflalr"
)

// C05 – compressed parser tables decode to the same actions.
//
// Every compile uses Optimize (with and without DefaultReduce, with and without
// MinimizeDFA). The displacement encoding is decoded the way the generated parser
// does and compared with the default encoding for every state x terminal and every
// existing goto; additionally both encodings are run as parsers over sentences and
// mutated sentences.

func c05One(c *fw.Ctx, g *lalr.Grammar, r *rand.Rand, kind string, nInputs int) {
	files := reflalr.Files(g)
	for _, defaultReduce := range []bool{false, true} {
		opts := lalr.Options{Optimize: true, DefaultReduce: defaultReduce, MinimizeDFA: r.Intn(3) == 0}
		var cp *reflalr.Compiled
		if !c.Guard("compile", files, func() { cp = reflalr.CompileHooked(g, opts) }) {
			return
		}
		c.Eval(1)
		t := cp.T
		if cp.Stages["optimized"] == nil {
			c.Violate("hook/optimized-stage-not-reached", "no hook call at stage optimized", files)
			return
		}
		c.Count("hook_calls_optimized", 1)
		var st reflalr.EncStats
		fs := reflalr.CompareEncodings(t, g.Terminals, defaultReduce, &st)
		for _, f := range fs {
			c.Violate(f.Sig, fmt.Sprintf("%s\noptions: %+v\n\n%s", f.Detail, opts, reflalr.Format(g)), files)
		}
		sfx := ""
		if defaultReduce {
			sfx = "_default_reduce"
		}
		c.Count("compiles_"+kind+sfx, 1)
		c.Count("cells_compared", int64(st.Cells))
		c.Count("gotos_compared", int64(st.Gotos))
		c.Count("cells_shift", int64(st.ShiftCells))
		c.Count("cells_reduce", int64(st.ReduceCells))
		c.Count("cells_error", int64(st.ErrorCells))
		c.Count("cells_nonassoc_error", int64(st.ExplicitErrors))
		c.Count("cells_error_turned_into_default_reduction", int64(st.DefaultReduced))
		c.Count("lookups_hitting_foreign_slot", int64(st.CheckMismatch))
		c.Count("lookups_outside_table", int64(st.OutOfTable))
		c.Count("symbols_with_binary_search_goto", int64(st.BinarySearchSyms))
		c.Count("lines_sharing_a_base", int64(st.SharedBases))
		c.Count("tables_needing_16_bits", int64(st.Wide))
		c.Count("terminal_gotostate_lookups", int64(st.TermGotoChecked))
		if len(t.Action) >= 80 {
			c.Count("compiles_with_80_or_more_states", 1)
		}
		if len(t.Action) > 127 {
			c.Count("compiles_with_more_than_127_states", 1)
		}
		if len(t.Lookaheads) > 0 {
			c.Count("compiles_with_runtime_lookahead_rules", 1)
		}
		if len(fs) > 0 {
			continue
		}

		// run both encodings as parsers
		sm := reflalr.NewSampler(g)
		pd := &reflalr.Parser{T: t, Terms: g.Terminals, NRules: len(g.Rules), KeepSteps: true}
		po := &reflalr.Parser{T: t, Terms: g.Terminals, NRules: len(g.Rules), KeepSteps: true, Optimized: true}
		rk := func(rule int) string { return fmt.Sprint(rule) }
		for i := 0; i < nInputs; i++ {
			inp := r.Intn(len(g.Inputs))
			nt := int(g.Inputs[inp].Nonterminal)
			var toks []int
			if sm.Productive(nt) && r.Intn(8) != 0 {
				toks, _ = sm.Sentence(r, nt, 3+r.Intn(6), 40)
				if r.Intn(2) == 0 {
					toks = reflalr.Mutate(r, toks, g.Terminals)
				}
			} else {
				toks = reflalr.RandomTokens(r, g.Terminals, r.Intn(8))
			}
			od, oo := pd.Parse(inp, toks), po.Parse(inp, toks)
			c.Count("inputs_parsed_with_both_encodings", 1)
			if od.Accept {
				c.Count("inputs_accepted", 1)
			} else {
				c.Count("inputs_rejected", 1)
			}
			kd, ko := od.Key(rk), oo.Key(rk)
			same := kd == ko
			if defaultReduce && !same && !od.Accept && !od.Diverged && od.Broken == "" && oo.Diverged {
				// a chain of default reductions over epsilon rules that never ends: every cell
				// is within what the statement permits, so this is only counted
				c.Count("inputs_where_default_reductions_do_not_terminate", 1)
				continue
			}
			if defaultReduce && !same {
				// permitted: extra default reductions before the same error at the same token
				same = !od.Accept && !oo.Accept && !od.Diverged && !oo.Diverged && od.Broken == "" && oo.Broken == "" && od.ErrTok == oo.ErrTok && shiftsOf(od) == shiftsOf(oo)
				if same {
					c.Count("inputs_with_extra_default_reductions_before_error", 1)
				}
			}
			if !same {
				c.Violate(fmt.Sprintf("parse/encodings-disagree/default-reduce=%v/accept=%v-vs-%v", defaultReduce, od.Accept, oo.Accept),
					fmt.Sprintf("input %d: %s\ndefault encoding:   %s\noptimized encoding: %s\noptions %+v\n\n%s", inp, reflalr.TokString(g, toks), kd, ko, opts, reflalr.Format(g)), files)
				break
			}
		}
		if st.Cells > 0 && len(t.Action) >= 6 {
			c.Distinct(fmt.Sprint(defaultReduce, opts.MinimizeDFA) + reflalr.ToJSON(g))
		}
	}
}

func shiftsOf(o *reflalr.Outcome) string {
	s := ""
	for _, st := range o.Steps {
		if st.Shift {
			s += fmt.Sprint(st.Tok, " ")
		}
	}
	return s
}

func c05Small(r *rand.Rand) *lalr.Grammar {
	cfg := reflalr.SmallConfig()
	cfg.Prec = r.Intn(2) == 0
	cfg.Lookaheads = r.Intn(4) == 0
	cfg.Markers = r.Intn(4) == 0
	cfg.Classes = r.Intn(2) == 0
	cfg.MaxT, cfg.MaxN = 8, 8
	if r.Intn(3) == 0 {
		cfg.MaxRules, cfg.MaxRHS = 6, 5
	}
	if r.Intn(10) == 0 {
		cfg.UselessChance = 1
	}
	g, _ := reflalr.RandomGrammar(r, cfg)
	return g
}

func init() {
	fw.Register(&fw.Check{
		ID: "C05",
		Rule: "each case: a batch of grammars - random small lalr.Grammar values (2-8 terminals, up to 8 nonterminals, precedence in half, lookahead nonterminals in a quarter, several inputs, useless nonterminals in a tenth), operator grammars with nonassoc groups, and LARGE statement/expression skeletons (10-170 binary operators in 2-13 precedence groups, prefix/postfix operators, stratified layers, blocks, calls, lists, optional runtime lookahead; 70-400 states), and keyword-table grammars with ~1000 rules (~2200 states) containing pairs of action rows over the same terminals whose rule numbers differ by (+1, -961) - the rows whose packer hashes collide - each compiled by lalr.Compile with Optimize, once without and once with DefaultReduce, MinimizeDFA in a third. " +
			"For every compile the displacement encoding (Action/DefAct/Base/Table/Check, Goto/DefGoto) is decoded exactly as parseFunc/gotoState of the generated parser do and compared with the default encoding for EVERY state x terminal (shift target, rule, error) and every existing goto, including the token path of gotoState; with DefaultReduce the only tolerated difference is: an error that is not an explicit Lalr entry may become one of the most frequent reductions of that state's row. Both encodings are also run as parsers on sentences, mutated sentences and random token strings from every input. " +
			"A compile is non-trivial when it has >= 6 states; distinctness by grammar text and option vector",
		Assumptions: []string{
			"the interpreters in internal/reflalr mirror gen/templates/go_parser.go.tmpl (parseFunc, lalr, gotoState) - they are validated against generated parsers by the end-to-end checks built elsewhere",
			"'most frequent reduction' of a state = any rule that is the action of the largest number of terminals in the state's Lalr row",
			"element widths (int8/int16/int32) are a template matter; here only the need for more than 8 bits is counted",
		},
		Cases: func(tier string) int {
			if tier == "thorough" {
				return 600
			}
			return 64
		},
		CPUBudget: 900,
		Run: func(c *fw.Ctx) {
			lalrTune()
			nSmall, nExpr, nLarge, nHash := 40, 6, 2, 1
			if c.Tier == "thorough" {
				nSmall, nExpr, nLarge, nHash = 60, 8, 3, 2
			}
			for i := 0; i < nSmall; i++ {
				r := c.SubRand(i)
				g := c05Small(r)
				if i == 0 {
					c.Sample(reflalr.Format(g))
				}
				c05One(c, g, r, "small", 12)
			}
			for i := 0; i < nExpr; i++ {
				r := c.SubRand(1000 + i)
				c05One(c, reflalr.RandomExprGrammar(r).G, r, "operator", 20)
			}
			for i := 0; i < nLarge; i++ {
				r := c.SubRand(2000 + i)
				c05One(c, reflalr.LargeGrammar(r), r, "large", 30)
			}
			for i := 0; i < nHash; i++ {
				// ~1000 rules; pairs of action rows over the same columns whose values differ by
				// (+1, -961), i.e. rows with equal polynomial row hashes in the packer
				r := c.SubRand(3000 + i)
				c05One(c, reflalr.HashCollisionGrammar(r), r, "hash_collision_family", 30)
			}
		},
		MinNontrivial: func(tier string) int {
			if tier == "thorough" {
				return 40000
			}
			return 3000
		},
		RequiredCounters: []string{"hook_calls_optimized", "compiles_large", "compiles_large_default_reduce", "compiles_small_default_reduce", "cells_nonassoc_error", "cells_error_turned_into_default_reduction",
			"lookups_hitting_foreign_slot", "symbols_with_binary_search_goto", "lines_sharing_a_base", "tables_needing_16_bits", "compiles_with_more_than_127_states", "compiles_with_runtime_lookahead_rules",
			"inputs_accepted", "inputs_rejected", "gotos_compared", "terminal_gotostate_lookups", "compiles_hash_collision_family"},
	})
}
