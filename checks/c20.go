package checks

import (
	"fmt"
	"math/rand"
	"sort"
	"strings"

	"verif/internal/cfg"
	"verif/internal/fw"
	"verif/internal/genrun"
	"verif/internal/gram"
	"verif/internal/recgram"
)

// C20 – parse events always form a well-nested tree.

type c20Grammar struct {
	g        *recgram.Grammar
	c        *recgram.Compiled
	optv     string
	ast      bool
	fileNode string
	recover  bool
}

// c20Options returns one of the option vectors within the property's scope:
// fixWhitespace (with any reported skipped tokens) or no reported skipped tokens.
func c20Options(r *rand.Rand, g *recgram.Grammar, v int, forceInject, forceMinimize bool) (o recgram.TextOpts, key string, ast bool, fileNode string) {
	tv := r.Intn(8)
	if forceMinimize {
		tv |= 4
	}
	o.Opts = append(o.Opts, tableOpts(tv)...)
	o.Comment = true
	fix := v%3 != 2
	if fix {
		o.Opts = append(o.Opts, "fixWhitespace = true")
		o.InjectComment = r.Intn(4) > 0 || forceInject
		o.InjectInvalid = r.Intn(4) > 0 || forceInject
		key = "fixws"
		if o.InjectComment {
			key += "+comments"
		}
		if o.InjectInvalid {
			key += "+invalid"
		}
	} else {
		key = "plain+nothing-reported"
	}
	if v%3 == 1 {
		o.Opts = append(o.Opts, "tokenStream = true")
		key += "+stream"
	}
	if v >= 3 {
		ast = true
		o.Opts = append(o.Opts, "eventFields = true", "eventAST = true")
		key += "+ast"
		// the file node type must actually be reported by some rule (else the type does not exist and the
		// generated builder does not compile: a C17 matter)
		used := false
		for i := range g.Rules {
			if g.Rules[i].LHS == g.Inputs[0].NT && g.Rules[i].Arrow == "" && !g.Rules[i].HasErr() {
				used = true
			}
		}
		if a := g.NTArrow[g.Inputs[0].NT]; a != "" && used && r.Intn(4) > 0 {
			fileNode = a
			o.Opts = append(o.Opts, fmt.Sprintf("fileNode = %q", a))
			key += "+filenode"
		}
	}
	key += fmt.Sprintf("/tables%d", tv)
	if tv&4 != 0 {
		key += "(minimizeDFA)"
	}
	return
}

type c20Meta struct {
	g      *c20Grammar
	kind   string // x | ast | syn
	text   string
	class  string
	xID    int // for ast and reuse jobs: the x job with the same input and policy (fresh parser)
	reuse  bool
	noinit bool
	syn    []genrun.Event
	synL   int
}

// synStream generates a random well-nested node set over [0,L] and a report
// order satisfying the premise (a strict container after its content; empty
// nodes on a boundary, equal ranges and disjoint nodes in any order).
func synStream(r *rand.Rand, L int, singleRoot bool) []genrun.Event {
	var post []genrun.Event
	ty := func() string { return fmt.Sprint(r.Intn(40)) }
	var gen func(s, e, depth int)
	gen = func(s, e, depth int) {
		// children inside [s,e]
		if depth < 6 && e > s {
			p := s
			for p < e && r.Intn(5) > 0 {
				a := p + r.Intn(e-p+1)
				if r.Intn(6) == 0 { // empty node
					post = append(post, genrun.Event{T: ty(), S: a, E: a})
					p = a
					if r.Intn(3) == 0 {
						continue
					}
				}
				if a >= e {
					break
				}
				b := a + 1 + r.Intn(e-a)
				if r.Intn(4) == 0 {
					b = e
				}
				if a == s && b == e && r.Intn(3) > 0 {
					b-- // equal-range chains only sometimes
					if b <= a {
						break
					}
				}
				gen(a, b, depth+1)
				p = b
			}
		}
		post = append(post, genrun.Event{T: ty(), S: s, E: e})
		for r.Intn(8) == 0 { // chain of equal ranges
			post = append(post, genrun.Event{T: ty(), S: s, E: e})
		}
	}
	if singleRoot {
		gen(0, L, 0)
	} else {
		p := 0
		for p < L {
			a := p + r.Intn(L-p+1)
			if a >= L {
				break
			}
			b := a + 1 + r.Intn(L-a)
			gen(a, b, 1)
			p = b
		}
		if len(post) == 0 {
			gen(0, L, 1)
		}
	}
	// legal adjacent transpositions
	constrained := func(a, b genrun.Event) bool { // must a stay before b?
		if a.S == b.S && a.E == b.E {
			return false
		}
		if a.S == a.E { // empty a strictly inside b
			return b.S < a.S && a.S < b.E
		}
		return b.S <= a.S && a.E <= b.E && b.S < b.E
	}
	for k := r.Intn(len(post) + 1); k > 0; k-- {
		i := r.Intn(len(post))
		if i+1 < len(post) && !constrained(post[i], post[i+1]) {
			post[i], post[i+1] = post[i+1], post[i]
		}
	}
	// delayed leaves (like pending tokens): move a leaf forward over unrelated events
	for k := r.Intn(4); k > 0 && len(post) > 2; k-- {
		i := r.Intn(len(post) - 1)
		j := i
		for j+1 < len(post) && j < i+6 && !constrained(post[j], post[j+1]) {
			post[j], post[j+1] = post[j+1], post[j]
			j++
		}
	}
	return post
}

func synText(L int, ev []genrun.Event) string {
	var b strings.Builder
	fmt.Fprintf(&b, "L %d", L)
	for _, e := range ev {
		fmt.Fprintf(&b, "\n%s %d %d", e.T, e.S, e.E)
	}
	return b.String()
}

func c20Generated(c *fw.Ctx) {
	thorough := c.Tier == "thorough"
	nG, nS, nM, nSyn := 6, 30, 80, 120
	if thorough {
		nG, nS, nM, nSyn = 12, 50, 160, 400
	}
	r := c.R
	var gs []*c20Grammar
	for i := 0; len(gs) < nG && i < nG*12; i++ {
		var g *recgram.Grammar
		if i%4 == 3 {
			g = recgram.FromCFG(r, gram.RandCFG(r))
		} else {
			// the first grammar of a case: trailing nullable + state marker + look-alike sibling, minimizeDFA on
			g = recgram.RandSkeleton(r, recgram.SkelOptions{TrailingNull: true, TrailingNullMarker: len(gs) == 0})
		}
		v := (len(gs) + c.Case) % 6
		noErr := r.Intn(4) == 0
		if len(gs) == 0 {
			// every case has a lexer-based parser without recovery that reports skipped tokens: a failed
			// parse then returns with tokens still pending
			v, noErr = 3*(c.Case%2), true
		}
		o, key, ast, fileNode := c20Options(r, g, v, len(gs) == 0, len(gs) == 0)
		o.WithErr = !noErr
		o.Pkg = fmt.Sprintf("g%04d", len(gs))
		cg := recgram.Compile(c, g, o)
		if cg == nil {
			continue
		}
		rec := cg.Pkg.G != nil && cg.Pkg.G.Parser != nil && cg.Pkg.G.Parser.IsRecovering
		if ast && !cg.X.HasAST {
			c.Count("ast_package_missing", 1)
			ast = false
		}
		gs = append(gs, &c20Grammar{g: g, c: cg, optv: key, ast: ast, fileNode: fileNode, recover: rec})
	}
	if len(gs) == 0 {
		return
	}
	var pkgs []*genrun.Pkg
	for _, g := range gs {
		pkgs = append(pkgs, g.c.Pkg)
	}
	bin := recgram.BuildModule(c, "", pkgs, false)
	if bin == "" {
		return
	}
	var jobs []genrun.Job
	var meta []c20Meta
	for _, g := range gs {
		c.Count("optvec:"+g.optv, 1)
		if strings.Contains(g.optv, "minimizeDFA") {
			c.Count("grammars_minimizeDFA", 1)
		}
		for _, f := range g.g.Features {
			if strings.HasPrefix(f, "trailing-nullable") {
				c.Count("feature:"+f, 1)
			}
		}
		if g.recover {
			c.Count("grammars_recovering", 1)
		} else {
			c.Count("grammars_without_recovery", 1)
		}
		tw := g.g.Twin()
		nT := len(g.g.Terms)
		reported := g.c.Opts.InjectComment || g.c.Opts.InjectInvalid
		for e, in := range g.g.Inputs {
			var texts [][2]string
			var sentences [][]int
			for i := 0; i < nS; i++ {
				t := tw.Sample(r, in.NT, 1+r.Intn(50))
				if t == nil {
					break
				}
				s := t.Yield(nil)
				if len(s) > 800 {
					continue
				}
				sentences = append(sentences, s)
				text, _ := recgram.Render(r, g.g.Terms, s, recgram.RenderStyle{Comments: true, Invalid: i%3 == 0})
				texts = append(texts, [2]string{"sentence", text})
			}
			for i := 0; i < nM && len(sentences) > 0; i++ {
				m := cfg.Mutate(r, sentences[r.Intn(len(sentences))], nT)
				for k := r.Intn(3); k > 0; k-- {
					m = cfg.Mutate(r, m, nT)
				}
				text, _ := recgram.Render(r, g.g.Terms, m, recgram.RenderStyle{Comments: true, Invalid: i%2 == 0})
				texts = append(texts, [2]string{"mutant", text})
			}
			for i := 0; i < nM/8; i++ {
				text, _ := recgram.Render(r, g.g.Terms, recgram.Garbage(r, nT, r.Intn(30)), recgram.RenderStyle{Comments: true, Invalid: true})
				texts = append(texts, [2]string{"garbage", text})
				texts = append(texts, [2]string{"raw", recgram.RawGarbage(r, g.g.Terms, r.Intn(50))})
			}
			for _, tx := range texts {
				pol := -1
				if r.Intn(5) == 0 {
					pol = r.Intn(3)
				}
				xid := len(jobs)
				jobs = append(jobs, genrun.Job{ID: xid, Pkg: g.c.Pkg.Name + ".x", Mode: "parse", Entry: e, Text: tx[1], EH: pol, MaxEvents: 400*(len(tx[1])+2) + 1000})
				meta = append(meta, c20Meta{g: g, kind: "x", text: tx[1], class: tx[0]})
				jobs = append(jobs, genrun.Job{ID: len(jobs), Pkg: g.c.Pkg.Name + ".x", Mode: "parse,reuse", Entry: e, Text: tx[1], EH: pol, MaxEvents: 400*(len(tx[1])+2) + 1000})
				meta = append(meta, c20Meta{g: g, kind: "x", text: tx[1], class: tx[0], reuse: true, xID: xid})
				jobs = append(jobs, genrun.Job{ID: len(jobs), Pkg: g.c.Pkg.Name + ".x", Mode: "parse,noinit", Entry: e, Text: tx[1], EH: pol, MaxEvents: 400*(len(tx[1])+2) + 1000})
				meta = append(meta, c20Meta{g: g, kind: "x", text: tx[1], class: tx[0], reuse: true, noinit: true, xID: xid})
				if g.ast && e == 0 {
					jobs = append(jobs, genrun.Job{ID: len(jobs), Pkg: g.c.Pkg.Name + ".ast", Mode: "parse", Text: tx[1], EH: pol})
					meta = append(meta, c20Meta{g: g, kind: "ast", text: tx[1], class: tx[0], xID: xid})
				}
			}
			_ = reported
		}
		if g.ast {
			for i := 0; i < nSyn; i++ {
				L := 1 + r.Intn(40)
				ev := synStream(r, L, g.fileNode == "" || r.Intn(3) == 0)
				jobs = append(jobs, genrun.Job{ID: len(jobs), Pkg: g.c.Pkg.Name + ".syn", Mode: "parse", Text: synText(L, ev)})
				meta = append(meta, c20Meta{g: g, kind: "syn", syn: ev, synL: L})
			}
		}
	}
	if c.Case == 0 {
		c.Sample(map[string]any{"grammar": gs[0].c.Pkg.Text, "input": meta[0].text})
	}
	res, err := genrun.Run(bin, c.WorkDir, jobs, 100)
	if err != nil {
		c.Violate("harness/runner/"+fw.Skeleton(err.Error()), err.Error(), nil)
		return
	}
	for _, id := range append(append([]int(nil), res.Crashed...), res.CPUExceeded...) {
		m := meta[id]
		c.Violate("generated/crash-or-cpu-limit/"+m.kind, fmt.Sprintf("runner died in a %s job, input %q\n%s", m.kind, m.text, res.Stderr),
			map[string]string{"grammar.tm": m.g.c.Pkg.Text, "input.txt": m.text, "stderr.txt": res.Stderr})
	}
	nontrivial := map[*c20Grammar]int{}
	for id, m := range meta {
		t := res.Traces[id]
		if t == nil {
			continue
		}
		files := map[string]string{"grammar.tm": m.g.c.Pkg.Text, "input.txt": m.text}
		switch m.kind {
		case "x":
			c.Eval(1)
			desc := func() string {
				return fmt.Sprintf("options %s, features %v, class %s\ntext: %q\nparser: ok=%v errkind=%s handler calls: %s\nevents: %s",
					m.g.optv, m.g.g.Features, m.class, m.text, t.OK, t.ErrKind, recgram.EHString(t.EH), recgram.EventsString(t.Events))
			}
			if t.Panic != "" {
				c.Violate("generated/panic/"+fw.Skeleton(firstLine(t.Panic)), desc()+"\n"+t.Panic, files)
				continue
			}
			who := "generated"
			if m.reuse {
				who = "generated-reused-parser"
			}
			if m.noinit {
				who = "generated-reused-parser-without-reinit"
			}
			if is := recgram.CheckNesting(t.Events, len(m.text)); is != nil {
				how := "valid-input"
				if len(t.EH) > 0 || !t.OK {
					how = "recovery"
				}
				c.Violate(nestSig(who, is, t.Events, how), is.Detail+"\n"+desc(), files)
				continue
			}
			if m.reuse {
				// the log must not depend on what the same Parser object parsed before
				if ft := res.Traces[m.xID]; ft != nil && ft.Panic == "" {
					if !eventsEqual(ft.Events, t.Events) || ft.OK != t.OK || len(ft.EH) != len(t.EH) {
						c.Violate(who+"/log-differs-from-fresh-parser", desc()+"\nfresh parser events: "+recgram.EventsString(ft.Events), files)
						continue
					}
					c.Count("reused_parser_logs_identical_to_fresh", 1)
				}
				continue
			}
			c.Count("event_logs_well_nested", 1)
			c.Count("events_checked", int64(len(t.Events)))
			if len(t.EH) > 0 {
				c.Count("logs_with_recovery", 1)
			}
			for _, e := range t.Events {
				switch {
				case e.T == "InvalidToken":
					c.Count("invalid_token_nodes", 1)
				case e.T == "Comment":
					c.Count("comment_nodes", 1)
				case e.S == e.E:
					c.Count("empty_nodes", 1)
				}
			}
			if len(t.Events) >= 5 {
				nontrivial[m.g]++
			}
		case "ast":
			xt := res.Traces[m.xID]
			if xt == nil || xt.Panic != "" {
				continue
			}
			if t.Panic != "" {
				c.Violate("generated-ast/panic/"+fw.Skeleton(firstLine(t.Panic)), fmt.Sprintf("ast.Parse of %q\n%s", m.text, t.Panic), files)
				continue
			}
			if !t.OK {
				c.Count("ast_parse_errors", 1)
				continue
			}
			if recgram.CheckNesting(xt.Events, len(m.text)) != nil {
				continue // reported above; the builder's premise does not hold
			}
			root, bad := recgram.ParseDump(t.Log)
			if root == nil {
				c.Violate("generated-ast/tree-broken/"+fw.Skeleton(bad), fmt.Sprintf("ast.Parse of %q: %s", m.text, bad), files)
				continue
			}
			var extra []genrun.Event
			if m.g.fileNode != "" {
				extra = append(extra, genrun.Event{T: m.g.fileNode, S: 0, E: len(m.text)})
			}
			bad2 := false
			for _, is := range recgram.CheckTree(root, xt.Events, extra) {
				c.Violate(treeSig("generated-ast", is), fmt.Sprintf("%s\noptions %s\ntext: %q\nevents: %s\ntree:\n%s", is.Detail, m.g.optv, m.text, recgram.EventsString(xt.Events), recgram.TreeString(root)), files)
				bad2 = bad2 || is.Sig != "tree/empty-node-at-end-of-root-dropped"
			}
			if bad2 {
				continue
			}
			c.Eval(1)
			c.Count("generated_trees_checked", 1)
			if len(xt.EH) > 0 {
				c.Count("generated_trees_after_recovery", 1)
			}
		case "syn":
			files["stream.txt"] = synText(m.synL, m.syn)
			if t.Panic != "" {
				c.Violate("builder/panic/"+fw.Skeleton(firstLine(t.Panic)), fmt.Sprintf("stream: %s\n%s", recgram.EventsString(m.syn), t.Panic), files)
				continue
			}
			if recgram.CheckNesting(m.syn, m.synL) != nil {
				c.Violate("harness/synthetic-stream-not-well-nested", recgram.EventsString(m.syn), files)
				continue
			}
			if !t.OK {
				c.Count("synthetic_streams_rejected_by_build", 1)
				continue
			}
			root, bad := recgram.ParseDump(t.Log)
			if root == nil {
				c.Violate("builder/tree-broken/"+fw.Skeleton(bad), fmt.Sprintf("stream: %s: %s", recgram.EventsString(m.syn), bad), files)
				continue
			}
			// the adapter maps type numbers: 1 + v % (max-1); the dump prints "name num": compare by number
			var max int
			fmt.Sscan(t.Val, &max)
			ev := make([]genrun.Event, len(m.syn))
			for i, e := range m.syn {
				var v int
				fmt.Sscan(e.T, &v)
				ev[i] = genrun.Event{T: fmt.Sprint(1 + v%(max-1)), S: e.S, E: e.E}
			}
			numTree := dumpByNumber(t.Log)
			if numTree == nil {
				continue
			}
			var extra []genrun.Event
			if m.g.fileNode != "" {
				extra = append(extra, genrun.Event{T: numTree.T, S: 0, E: m.synL})
			}
			bad2 := false
			for _, is := range recgram.CheckTree(numTree, ev, extra) {
				c.Violate(treeSig("builder", is), fmt.Sprintf("%s\nstream (type numbers as sent): %s\ntree:\n%s", is.Detail, recgram.EventsString(m.syn), recgram.TreeString(numTree)), files)
				bad2 = bad2 || is.Sig != "tree/empty-node-at-end-of-root-dropped"
			}
			if bad2 {
				continue
			}
			c.Eval(1)
			c.Count("synthetic_streams_built_correctly", 1)
			c.Count("synthetic_nodes", int64(len(m.syn)))
		}
	}
	var keys []string
	for g, k := range nontrivial {
		if k >= 20 {
			keys = append(keys, g.c.Pkg.Text)
		}
	}
	sort.Strings(keys)
	for _, k := range keys {
		c.Distinct(k)
	}
}

// nestSig builds the signature of a log violation: the mechanism first when the log shows it.
func nestSig(who string, is *recgram.NestIssue, ev []genrun.Event, how string) string {
	if m := recgram.ClassifyNesting(is, ev); m != "" && !strings.Contains(who, "reused") {
		return m + "/" + is.Sig + "/" + who + "/" + how
	}
	return who + "/" + is.Sig + "/" + how
}

// treeSig builds the signature of a tree violation.
func treeSig(who string, is *recgram.NestIssue) string {
	if is.Sig == "tree/empty-node-at-end-of-root-dropped" {
		return "ast-builder/empty-node-at-end-of-root-dropped/" + who
	}
	return who + "/" + is.Sig
}

// dumpByNumber re-reads the dump using the numeric node type as T.
func dumpByNumber(lines []string) *recgram.TreeNode {
	var conv []string
	for _, l := range lines {
		f := strings.Fields(l)
		if len(f) == 5 {
			conv = append(conv, strings.Join([]string{f[0], f[2], f[2], f[3], f[4]}, " "))
		}
	}
	root, _ := recgram.ParseDump(conv)
	return root
}

// ---------------------------------------------------------------------------
// shipped parsers

func c20ShippedCase(c *fw.Ctx, parser string) {
	thorough := c.Tier == "thorough"
	n := 3000
	if thorough {
		n = 12000
	}
	r := c.R
	inputs := shippedInputs(r, parser, n, 6000)
	corpus := recgram.Corpus(parser)
	// whole files, unmutated and lightly mutated
	for i := 0; i < n/100 && len(corpus) > 0; i++ {
		src := corpus[r.Intn(len(corpus))]
		if len(src) > 300000 {
			continue
		}
		if i%2 == 1 {
			src = recgram.MutateText(r, src, corpus[r.Intn(len(corpus))], 1+r.Intn(4))
		}
		inputs = append(inputs, src)
	}
	if len(inputs) == 0 {
		c.Count("corpus_missing_"+parser, 1)
		return
	}
	entries := recgram.ShippedEntries[parser]
	recgram.ResetShared()
	hasAST := parser == "tm" || parser == "js"
	distinct := 0
	for i, text := range inputs {
		o := recgram.SOpts{Parser: parser, KeepEvents: true, EH: -1, MaxEvents: 400*(len(text)+2) + 1000}
		if !hasAST && r.Intn(5) == 0 {
			o.Entry = r.Intn(len(entries))
		}
		if parser == "js" && r.Intn(3) == 0 {
			o.Dialect = 1 + r.Intn(2)
			if r.Intn(4) == 0 {
				o.Entry = r.Intn(len(entries))
			}
		}
		if i < 40 {
			c.Note(map[string]string{"input.txt": text, "parser.txt": fmt.Sprintf("%s entry %d dialect %d", parser, o.Entry, o.Dialect)})
		}
		run := recgram.RunShipped(text, o)
		files := map[string]string{"input.txt": text}
		desc := func() string {
			return fmt.Sprintf("shipped parser %s, entry %s, dialect %d\ntext: %q\nparser: ok=%v errkind=%s handler calls: %s\nevents: %s",
				parser, entries[o.Entry], o.Dialect, clipText(text, 3000), run.OK, run.ErrKind, recgram.EHString(run.EH), recgram.EventsString(run.Events))
		}
		if run.Panic != "" {
			c.Violate("shipped-"+parser+"/panic/"+fw.Skeleton(firstLine(run.Panic)), desc()+"\n"+run.Panic, files)
			continue
		}
		c.Eval(1)
		if is := recgram.CheckNesting(run.Events, len(text)); is != nil {
			how := "valid-input"
			if len(run.EH) > 0 || !run.OK {
				how = "recovery"
			}
			c.Violate(nestSig("shipped-"+parser, is, run.Events, how), is.Detail+"\n"+desc(), files)
			continue
		}
		c.Count("shipped_"+parser+"_logs_well_nested", 1)
		c.Count("events_checked", int64(len(run.Events)))
		// the same input on the long-lived parsers of this case (with and without a new Init)
		for variant, suffix := range []string{"-reused-parser", "-reused-parser-without-reinit"} {
			ro := o
			ro.Reuse, ro.NoReinit = variant == 0, variant == 1
			rrun := recgram.RunShipped(text, ro)
			who := "shipped-" + parser + suffix
			if rrun.Panic != "" {
				c.Violate(who+"/panic/"+fw.Skeleton(firstLine(rrun.Panic)), desc()+"\n"+rrun.Panic, files)
			} else if is := recgram.CheckNesting(rrun.Events, len(text)); is != nil {
				c.Violate(nestSig(who, is, rrun.Events, "any"), is.Detail+"\n"+desc()+"\nreused parser events: "+recgram.EventsString(rrun.Events), files)
			} else if !eventsEqual(run.Events, rrun.Events) || run.OK != rrun.OK {
				c.Violate(who+"/log-differs-from-fresh-parser", desc()+"\nreused parser events: "+recgram.EventsString(rrun.Events), files)
			} else {
				c.Count("reused_parser_logs_identical_to_fresh", 1)
			}
		}
		if len(run.EH) > 0 {
			c.Count("shipped_"+parser+"_logs_with_recovery", 1)
		}
		if len(run.Events) >= 5 && distinct < 300 && (len(run.EH) > 0 || i%4 == 0) {
			c.Distinct(parser + "\x00" + text)
			distinct++
		}
		if !hasAST || o.Entry != 0 || o.Dialect != 0 {
			continue
		}
		root, errText, panicText := recgram.ShippedTree(parser, text, 0, func(s, e int) bool { return true })
		if panicText != "" {
			c.Violate("shipped-"+parser+"-ast/panic/"+fw.Skeleton(firstLine(panicText)), desc()+"\n"+panicText, files)
			continue
		}
		if root == nil {
			if run.OK {
				c.Violate("shipped-"+parser+"-ast/parse-result-differs", desc()+"\nast.Parse failed: "+errText, files)
			}
			c.Count("shipped_"+parser+"_ast_errors", 1)
			continue
		}
		bad := false
		for _, is := range recgram.CheckTree(root, run.Events, []genrun.Event{{T: "File", S: 0, E: len(text)}}) {
			c.Violate(treeSig("shipped-"+parser+"-ast", is), is.Detail+"\n"+desc()+"\ntree:\n"+recgram.TreeString(root), files)
			bad = bad || is.Sig != "tree/empty-node-at-end-of-root-dropped"
		}
		if bad {
			continue
		}
		c.Count("shipped_"+parser+"_trees_checked", 1)
		if len(run.EH) > 0 {
			c.Count("shipped_"+parser+"_trees_after_recovery", 1)
		}
	}
}

func clipText(s string, n int) string {
	if len(s) > n {
		return s[:n] + "..."
	}
	return s
}

func c20Layout(tier string) (nGen, nShipped int) {
	if tier == "thorough" {
		return 24, 16
	}
	return 6, 4
}

func c20Run(c *fw.Ctx) {
	nGen, _ := c20Layout(c.Tier)
	if c.Case < nGen {
		c20Generated(c)
		return
	}
	c20ShippedCase(c, c19Shipped[(c.Case-nGen)%len(c19Shipped)])
}

func init() {
	fw.Register(&fw.Check{
		ID:          "C20",
		Rule:        "shipped cases: tm, js (3 dialects, 4 entry points), json, test parsers imported from the repository run on test-suite snippets and repository files, mostly with 1-3 text mutations, 'continue always' handler, each input on fresh and on long-lived Parser/TokenStream/Lexer objects; the recorded listener log must satisfy the trace specification (inside the input, not inverted, pairwise disjoint or nested, strict container after its content; checked with a sorted list of maximal intervals). For tm and js the tree of ast.Parse on the same input is read through the public Node API and compared with the log: same node multiset (+File), every non-empty node below the smallest reported strict container (or chained with nodes of equal range), empty nodes below a node containing their offset (inside the smallest node having it in its interior), siblings in source order. Generated cases: recovery grammars (skeleton and random families of C19) under option vectors inside the property's scope - fixWhitespace with reported comments and invalid tokens (lexer-based and tokenStream parsers) or nothing reported without fixWhitespace; half with eventAST (+fileNode) - (all table-option vectors incl. minimizeDFA; statement forms ending in a nullable nonterminal, also followed by a state marker and next to a look-alike rule of the same length and node that ends with a token; every case contains a lexer-based parser without recovery that reports comments and invalid tokens) run on sentences with comments and foreign characters, mutants, garbage, each input on a fresh Parser and on long-lived ones shared by consecutive runs (one re-initialised before each parse, one initialised once) (log must be well nested and equal to the fresh one); same log check; eventAST packages: ast.Parse tree vs. log, and the generated builder fed directly with synthetic well-nested streams in hostile legal orders (disjoint nodes out of source order, delayed leaves, equal-range chains, boundary empties). Non-trivial/distinct: grammar with >=20 logs of >=5 events; shipped input with >=5 events",
		Assumptions: []string{"the public Node API (Child/Next/Offset/Endoffset/Type) reflects the built tree", "for empty nodes and for nodes of equal range the statement leaves the parent open: any containing parent / either order is accepted"},
		Cases: func(tier string) int {
			a, b := c20Layout(tier)
			return a + b
		},
		Par:           8,
		Run:           c20Run,
		CPUBudget:     1200,
		MinNontrivial: func(tier string) int { return 200 },
		RequiredCounters: []string{"event_logs_well_nested", "logs_with_recovery", "invalid_token_nodes", "comment_nodes", "empty_nodes",
			"generated_trees_checked", "generated_trees_after_recovery", "reused_parser_logs_identical_to_fresh", "grammars_without_recovery", "grammars_minimizeDFA", "feature:trailing-nullable+lookalike-sibling", "feature:trailing-nullable+marker", "synthetic_streams_built_correctly",
			"shipped_tm_trees_checked", "shipped_js_trees_checked", "shipped_tm_trees_after_recovery", "shipped_js_trees_after_recovery",
			"shipped_json_logs_well_nested", "shipped_test_logs_well_nested", "shipped_js_logs_with_recovery", "shipped_tm_logs_with_recovery"},
	})
}
