package checks

import (
	"fmt"
	"math/rand"
	"sort"
	"strings"

	"verif/internal/cfg"
	"verif/internal/fw"
	"verif/internal/genrun"
	"verif/internal/gram"
	"verif/internal/recgram"
)

// C19 – error recovery is safe and transparent.

type c19Pair struct {
	g    *recgram.Grammar
	G, T *recgram.Compiled // grammar with error alternatives, twin without
	optv string
}

// c19OptVector draws the option vector shared by a grammar and its twin.
func c19OptVector(r *rand.Rand) (recgram.TextOpts, string) {
	var o recgram.TextOpts
	v := r.Intn(8)
	o.Opts = append(o.Opts, tableOpts(v)...)
	key := fmt.Sprintf("tables%d", v)
	if r.Intn(2) == 0 {
		o.Opts = append(o.Opts, "fixWhitespace = true")
		key += "+fixws"
	}
	if r.Intn(2) == 0 {
		o.Comment = true
		o.InjectComment = r.Intn(2) == 0
		key += "+comment"
		if o.InjectComment {
			key += "+reported"
		}
	}
	if r.Intn(3) == 0 {
		o.InjectInvalid = true
		key += "+invalidtoken"
	}
	if r.Intn(4) == 0 {
		o.Opts = append(o.Opts, "tokenStream = true")
		key += "+stream"
	} else if r.Intn(4) == 0 {
		// (tokenStream without tokenLine does not build: a C17 matter, avoided here)
		o.Opts = append(o.Opts, "tokenLine = false")
		key += "+noline"
	}
	return o, key
}

// c19Pairs generates grammar pairs until n compile conflict-free on both sides.
func c19Pairs(c *fw.Ctx, n, maxTries int) []*c19Pair {
	r := c.R
	var out []*c19Pair
	// a quarter of the pairs comes from the random family (most random candidates have conflicts,
	// so that family gets many more attempts)
	wantRandom, haveRandom := (n+3)/4, 0
	for i := 0; len(out) < n && i < maxTries*8; i++ {
		var g *recgram.Grammar
		if haveRandom < wantRandom && i < maxTries*7 {
			g = recgram.FromCFG(r, gram.RandCFG(r))
		} else {
			// every other skeleton has the statement form ending in a nullable nonterminal (mostly with a state
			// marker behind it and a look-alike sibling rule ending with a token: relevant for minimizeDFA)
			g = recgram.RandSkeleton(r, recgram.SkelOptions{TrailingNull: i%2 == 0})
		}
		if g.ErrRules() == 0 {
			c.Count("candidates_without_error_rules", 1)
			continue
		}
		c.Count("candidates_"+g.Family, 1)
		o, key := c19OptVector(r)
		o.WithErr = true
		o.Pkg = fmt.Sprintf("g%04d", len(out))
		G := recgram.Compile(c, g, o)
		if G == nil {
			continue
		}
		if G.Pkg.G == nil || G.Pkg.G.Parser == nil || !G.Pkg.G.Parser.IsRecovering {
			c.Count("grammars_error_unused_not_recovering", 1)
			continue
		}
		o.WithErr = false
		o.Pkg = fmt.Sprintf("t%04d", len(out))
		T := recgram.Compile(c, g, o)
		if T == nil {
			c.Count("twin_rejected", 1)
			continue
		}
		out = append(out, &c19Pair{g: g, G: G, T: T, optv: key})
		c.Count("pairs_"+g.Family, 1)
		if g.Family == "random" {
			haveRandom++
		}
	}
	return out
}

type c19Input struct {
	class    string // sentence | sentence+junk | mutant | truncated | garbage | raw | long | long-errors
	toks     []int  // nil for raw text
	text     string
	known    bool // sentence status known
	sentence bool
}

type c19Meta struct {
	p       *c19Pair
	entry   int
	in      *c19Input
	policy  int
	twin    bool
	twinID  int  // job id of the twin run (for sentence runs of G)
	reuse   bool // parsed with the long-lived Parser object shared by all reuse jobs of the package
	noinit  bool // reuse without calling Parser.Init again (a second long-lived object, initialised once)
	freshID int  // reuse jobs: the job with the same input and policy on a fresh Parser
}

func c19Inputs(r *rand.Rand, p *c19Pair, nt int, thorough bool) []*c19Input {
	tw := p.g.Twin()
	nT := len(p.g.Terms)
	nS, nM, nTr, nG, nRaw := 24, 60, 12, 10, 6
	if thorough {
		nS, nM, nTr, nG, nRaw = 50, 140, 30, 24, 12
	}
	var out []*c19Input
	seen := map[string]bool{}
	add := func(in *c19Input) {
		if seen[in.text] {
			return
		}
		seen[in.text] = true
		out = append(out, in)
	}
	classify := func(toks []int) (known, sentence bool) {
		if len(toks) > 400 {
			return false, false
		}
		return true, tw.Recognize(nt, toks).Sentence
	}
	style := recgram.RenderStyle{Comments: p.G.Opts.Comment}
	var sentences [][]int
	for i := 0; i < nS; i++ {
		budget := 1 + r.Intn(40)
		if i%6 == 5 {
			budget = 120
		}
		t := tw.Sample(r, nt, budget)
		if t == nil {
			return nil
		}
		s := t.Yield(nil)
		if len(s) > 1500 {
			continue
		}
		sentences = append(sentences, s)
		text, _ := recgram.Render(r, p.g.Terms, s, style)
		add(&c19Input{class: "sentence", toks: s, text: text, known: true, sentence: true})
		if i%4 == 0 {
			st := style
			st.Invalid = true
			text, _ := recgram.Render(r, p.g.Terms, s, st)
			add(&c19Input{class: "sentence+junk", toks: s, text: text})
		}
	}
	if len(sentences) == 0 {
		return out
	}
	for i := 0; i < nM; i++ {
		s := sentences[r.Intn(len(sentences))]
		m := cfg.Mutate(r, s, nT)
		for k := r.Intn(3); k > 0; k-- {
			m = cfg.Mutate(r, m, nT)
		}
		st := style
		st.Invalid = i%5 == 4
		text, _ := recgram.Render(r, p.g.Terms, m, st)
		known, sent := classify(m)
		if st.Invalid {
			// text level: with foreign characters the input is not a sentence of the language in the strict
			// sense; it still is one for the parser (invalid tokens are skipped). Only non-sentences keep their status.
			if sent {
				known = false
			}
		}
		add(&c19Input{class: "mutant", toks: m, text: text, known: known, sentence: sent})
	}
	for i := 0; i < nTr; i++ {
		s := sentences[r.Intn(len(sentences))]
		if len(s) == 0 {
			continue
		}
		m := append([]int(nil), s[:r.Intn(len(s))]...)
		text, _ := recgram.Render(r, p.g.Terms, m, style)
		known, sent := classify(m)
		add(&c19Input{class: "truncated", toks: m, text: text, known: known, sentence: sent})
	}
	for i := 0; i < nG; i++ {
		m := recgram.Garbage(r, nT, r.Intn(30))
		text, _ := recgram.Render(r, p.g.Terms, m, style)
		known, sent := classify(m)
		add(&c19Input{class: "garbage", toks: m, text: text, known: known, sentence: sent})
	}
	for i := 0; i < nRaw; i++ {
		add(&c19Input{class: "raw", text: recgram.RawGarbage(r, p.g.Terms, r.Intn(60))})
	}
	// long inputs: one long sentence and the same with many errors
	for tries := 0; tries < 6; tries++ {
		s := p.g.LongSentence(r, nt, 300+r.Intn(1500))
		if len(s) < 150 || len(s) > 4000 {
			continue
		}
		text, _ := recgram.Render(r, p.g.Terms, s, recgram.RenderStyle{Comments: style.Comments, Tight: true})
		add(&c19Input{class: "long", toks: s, text: text, known: true, sentence: true})
		m := recgram.MutateMany(r, s, nT, 3+len(s)/25)
		st := recgram.RenderStyle{Comments: style.Comments, Tight: true, Invalid: r.Intn(2) == 0}
		text, _ = recgram.Render(r, p.g.Terms, m, st)
		known, sent := classify(m)
		if st.Invalid && sent {
			known = false
		}
		add(&c19Input{class: "long-errors", toks: m, text: text, known: known, sentence: sent})
		break
	}
	return out
}

// c19Safety checks the part of the property that holds for every input.
// Returns false if the trace is unusable for further comparisons.
func c19Safety(c *fw.Ctx, who string, text string, policy int, t *genrun.Trace, desc func() string, files map[string]string) bool {
	n := len(text)
	if t.Panic != "" {
		switch {
		case strings.Contains(t.Panic, "error handler called more often"):
			c.Violate(who+"progress/handler-calls-unbounded", desc()+"\n"+t.Panic, files)
		case strings.Contains(t.Panic, "event limit exceeded"):
			c.Violate(who+"progress/event-bound-exceeded", desc()+"\n"+t.Panic, files)
		default:
			c.Violate(who+"panic/"+fw.Skeleton(firstLine(t.Panic)), desc()+"\n"+t.Panic, files)
		}
		return false
	}
	ok := true
	prev := 0
	for i, e := range t.EH {
		switch {
		case e.S < 0 || e.S > n || e.E > n || e.E < 0:
			c.Violate(who+"handler/offset-outside-input", desc()+fmt.Sprintf("\nhandler call #%d [%d,%d) with input length %d", i, e.S, e.E, n), files)
			ok = false
		case e.E < e.S:
			c.Violate(who+"handler/endoffset-before-offset", desc()+fmt.Sprintf("\nhandler call #%d [%d,%d)", i, e.S, e.E), files)
			ok = false
		case e.S < prev:
			c.Violate(who+"handler/offset-decreased", desc()+fmt.Sprintf("\nhandler call #%d at %d after a call at %d", i, e.S, prev), files)
			ok = false
		}
		prev = e.S
	}
	c.Count("handler_calls_checked", int64(len(t.EH)))
	if policy >= 0 {
		limit := policy
		if limit == 0 {
			limit = 1
		}
		if len(t.EH) > limit || (len(t.EH) == limit && t.OK) {
			c.Violate(who+"handler/stop-request-ignored", desc()+fmt.Sprintf("\nthe handler returned false at call #%d, yet %d calls were made and ok=%v", limit, len(t.EH), t.OK), files)
			ok = false
		} else if len(t.EH) == limit {
			c.Count("stopped_by_handler", 1)
		}
	}
	switch t.ErrKind {
	case "syntax":
		if t.S < 0 || t.E > n || t.E < t.S {
			c.Violate(who+"result/syntax-error-range-outside-input", desc(), files)
			ok = false
		}
		if len(t.EH) == 0 && policy != -2 {
			c.Violate(who+"result/syntax-error-not-reported-through-handler", desc(), files)
			ok = false
		}
	case "":
	default:
		c.Violate(who+"result/unexpected-error-kind-"+t.ErrKind, desc(), files)
		ok = false
	}
	return ok
}

func c19Generated(c *fw.Ctx) {
	thorough := c.Tier == "thorough"
	nPairs := 8
	if thorough {
		nPairs = 12
	}
	r := c.R
	pairs := c19Pairs(c, nPairs, nPairs*12)
	if len(pairs) == 0 {
		return
	}
	var pkgs []*genrun.Pkg
	for _, p := range pairs {
		pkgs = append(pkgs, p.G.Pkg, p.T.Pkg)
	}
	bin := recgram.BuildModule(c, "", pkgs, false)
	if bin == "" {
		return
	}
	var jobs []genrun.Job
	var meta []c19Meta
	alt := 0
	addJob := func(m c19Meta, pkg string) int {
		id := len(jobs)
		mode := "parse"
		if m.reuse {
			mode = "parse,reuse"
		}
		if m.noinit {
			mode = "parse,noinit"
		}
		jobs = append(jobs, genrun.Job{ID: id, Pkg: pkg + ".x", Mode: mode, Entry: m.entry, Text: m.in.text, EH: m.policy,
			MaxEvents: 400*(len(m.in.text)+2) + 1000})
		meta = append(meta, m)
		return id
	}
	for _, p := range pairs {
		c.Count("optvec:"+p.optv, 1)
		for _, f := range p.g.Features {
			if strings.HasPrefix(f, "err:") {
				c.Count("feature:"+f, 1)
			}
		}
		for e, in := range p.g.Inputs {
			for _, inp := range c19Inputs(r, p, in.NT, thorough) {
				c.Count("inputs_"+inp.class, 1)
				if inp.known && inp.sentence {
					tid := addJob(c19Meta{p: p, entry: e, in: inp, policy: -2, twin: true}, p.T.Pkg.Name)
					fid := addJob(c19Meta{p: p, entry: e, in: inp, policy: -1, twinID: tid}, p.G.Pkg.Name)
					addJob(c19Meta{p: p, entry: e, in: inp, policy: -1, twinID: tid, reuse: true, freshID: fid}, p.G.Pkg.Name)
					addJob(c19Meta{p: p, entry: e, in: inp, policy: -1, twinID: tid, reuse: true, noinit: true, freshID: fid}, p.G.Pkg.Name)
					pol := 0
					if r.Intn(2) == 0 {
						pol = 2
					}
					addJob(c19Meta{p: p, entry: e, in: inp, policy: pol, twinID: tid}, p.G.Pkg.Name)
				} else {
					fid := addJob(c19Meta{p: p, entry: e, in: inp, policy: -1, twinID: -1}, p.G.Pkg.Name)
					pol := 0
					if r.Intn(2) == 0 {
						pol = 2 + r.Intn(3)
					}
					fid2 := addJob(c19Meta{p: p, entry: e, in: inp, policy: pol, twinID: -1}, p.G.Pkg.Name)
					// the same on the long-lived parser: alternately "continue" and the stopping policy, so that
					// parses ending in the middle of a recovery are followed by other parses on the same object
					alt++
					if alt%2 == 0 {
						addJob(c19Meta{p: p, entry: e, in: inp, policy: -1, twinID: -1, reuse: true, freshID: fid}, p.G.Pkg.Name)
						addJob(c19Meta{p: p, entry: e, in: inp, policy: pol, twinID: -1, reuse: true, noinit: true, freshID: fid2}, p.G.Pkg.Name)
					} else {
						addJob(c19Meta{p: p, entry: e, in: inp, policy: pol, twinID: -1, reuse: true, freshID: fid2}, p.G.Pkg.Name)
						addJob(c19Meta{p: p, entry: e, in: inp, policy: -1, twinID: -1, reuse: true, noinit: true, freshID: fid}, p.G.Pkg.Name)
					}
				}
			}
		}
	}
	if c.Case == 0 {
		c.Sample(map[string]any{"grammar": pairs[0].G.Pkg.Text, "twin_differs_by": "error alternatives removed", "input": meta[len(meta)/2].in.text})
	}
	res, err := genrun.Run(bin, c.WorkDir, jobs, 100)
	if err != nil {
		c.Violate("harness/runner/"+fw.Skeleton(err.Error()), err.Error(), nil)
		return
	}
	isCPU := map[int]bool{}
	for _, id := range res.CPUExceeded {
		isCPU[id] = true
	}
	for _, id := range append(append([]int(nil), res.Crashed...), res.CPUExceeded...) {
		m := meta[id]
		kind := "crash"
		if isCPU[id] {
			kind = "progress/cpu-limit"
		}
		pkg := m.p.G.Pkg
		if m.twin {
			pkg = m.p.T.Pkg
		}
		c.Violate(kind, fmt.Sprintf("runner died while parsing %q (entry %d, handler policy %d)\n%s", m.in.text, m.entry, m.policy, res.Stderr),
			map[string]string{"grammar.tm": pkg.Text, "input.txt": m.in.text, "stderr.txt": res.Stderr})
	}
	perPair := map[*c19Pair][2]int{}
	for id, m := range meta {
		t := res.Traces[id]
		if t == nil || m.twin {
			continue
		}
		c.Eval(1)
		files := map[string]string{"grammar.tm": m.p.G.Pkg.Text, "twin.tm": m.p.T.Pkg.Text, "input.txt": m.in.text}
		desc := func() string {
			return fmt.Sprintf("options %s, features %v, input %s, class %s, handler policy %d (0: stop at first, k: stop at k-th, -1: continue)\ntext: %q\nparser: ok=%v errkind=%s err=%q [%d,%d)\nhandler calls: %s\nevents: %s",
				m.p.optv, m.p.g.Features, m.p.g.Nonterms[m.p.g.Inputs[m.entry].NT], m.in.class, m.policy, m.in.text, t.OK, t.ErrKind, t.Err, t.S, t.E,
				recgram.EHString(t.EH), recgram.EventsString(t.Events))
		}
		who := ""
		if m.reuse {
			who = "reused-parser/"
		}
		if m.noinit {
			who = "reused-parser-without-reinit/"
		}
		if !c19Safety(c, who, m.in.text, m.policy, t, desc, files) {
			continue
		}
		if m.reuse {
			// a parse must not depend on what the same Parser object parsed before
			if ft := res.Traces[m.freshID]; ft != nil && ft.Panic == "" {
				if diff := c19TraceDiff(ft, t); diff != "" {
					c.Violate(who+"differs-from-fresh-parser/"+diff, desc()+fmt.Sprintf("\nfresh parser: ok=%v errkind=%s [%d,%d) handler calls: %s\nevents: %s",
						ft.OK, ft.ErrKind, ft.S, ft.E, recgram.EHString(ft.EH), recgram.EventsString(ft.Events)), files)
					continue
				}
				if m.noinit {
					c.Count("reused_parser_without_reinit_runs_identical_to_fresh", 1)
				} else {
					c.Count("reused_parser_runs_identical_to_fresh", 1)
				}
			}
		}
		if m.reuse {
			continue // everything else is judged on the fresh-parser run of the same input
		}
		c.Count(fmt.Sprintf("policy_%d_runs", min(m.policy, 2)), 1)
		if len(t.EH) > 0 {
			c.Count("runs_with_handler_calls", 1)
			if t.OK {
				c.Count("recovered_to_acceptance", 1)
			}
			if len(t.EH) >= 3 {
				c.Count("runs_with_3plus_errors", 1)
			}
		}
		if !m.in.known {
			continue
		}
		pp := perPair[m.p]
		if !m.in.sentence {
			if t.OK && len(t.EH) == 0 {
				c.Violate("recovery/non-sentence-accepted-silently", desc(), files)
				continue
			}
			c.Count("non_sentences_reported", 1)
			pp[1]++
			perPair[m.p] = pp
			continue
		}
		// transparency on sentences of the twin language
		tt := res.Traces[m.twinID]
		if tt == nil {
			continue
		}
		if tt.Panic != "" || !tt.OK {
			// the recovery-free twin rejects a sentence: a defect of C01's property, not of recovery
			c.Count("twin_rejected_sentence", 1)
			continue
		}
		if len(t.EH) > 0 {
			c.Violate("transparency/handler-called-on-sentence", desc(), files)
			continue
		}
		if !t.OK {
			c.Violate("transparency/sentence-rejected", desc(), files)
			continue
		}
		if !eventsEqual(t.Events, tt.Events) {
			sig := "transparency/" + classifyEventMismatch(tt.Events, t.Events)
			if trimOnlyDiff(t.Events, tt.Events, m.in.text) {
				// same nodes, only the amount of trailing whitespace/comments inside node ranges differs
				sig = "transparency/trailing-whitespace-trimming-differs-from-twin"
			}
			c.Violate(sig, desc()+"\ntwin events: "+recgram.EventsString(tt.Events), files)
			continue
		}
		if t.Val != tt.Val {
			c.Violate("transparency/value-differs", desc()+fmt.Sprintf("\nvalue %q, twin %q", t.Val, tt.Val), files)
			continue
		}
		c.Count("sentences_identical_to_twin", 1)
		c.Count("events_compared_with_twin", int64(len(t.Events)))
		pp[0]++
		perPair[m.p] = pp
	}
	var keys []string
	for p, k := range perPair {
		if k[0] >= 5 && k[1] >= 5 {
			keys = append(keys, p.g.Key())
		}
	}
	sort.Strings(keys)
	for _, k := range keys {
		c.Distinct(k)
	}
}

// trimOnlyDiff: both logs have the same nodes in the same order and differ only in end offsets,
// the text between the two ends consisting of whitespace and comments.
func trimOnlyDiff(a, b []genrun.Event, text string) bool {
	if len(a) != len(b) {
		return false
	}
	for i := range a {
		if a[i].T != b[i].T || a[i].S != b[i].S || a[i].F != b[i].F {
			return false
		}
		lo, hi := a[i].E, b[i].E
		if lo > hi {
			lo, hi = hi, lo
		}
		if lo < 0 || hi > len(text) {
			return false
		}
		inComment := false
		for _, ch := range []byte(text[lo:hi]) {
			switch {
			case inComment:
				inComment = ch != '\n'
			case ch == '#':
				inComment = true
			case ch != ' ' && ch != '\t' && ch != '\n' && ch != '\r':
				return false
			}
		}
	}
	return true
}

// c19TraceDiff names the first difference between two runs of the same input ("" if none).
func c19TraceDiff(a, b *genrun.Trace) string {
	switch {
	case a.OK != b.OK || a.ErrKind != b.ErrKind:
		return "result"
	case a.S != b.S || a.E != b.E:
		return "error-range"
	case len(a.EH) != len(b.EH):
		return "number-of-handler-calls"
	}
	for i := range a.EH {
		if a.EH[i] != b.EH[i] {
			return "handler-call-ranges"
		}
	}
	if !eventsEqual(a.Events, b.Events) {
		return "events"
	}
	if a.Val != b.Val {
		return "value"
	}
	return ""
}

func eventsEqual(a, b []genrun.Event) bool {
	if len(a) != len(b) {
		return false
	}
	for i := range a {
		if a[i] != b[i] {
			return false
		}
	}
	return true
}

// ---------------------------------------------------------------------------
// shipped parsers: safety half on mutated corpus inputs

var c19Shipped = []string{"js", "tm", "test", "json"}

// shippedInputs derives the inputs of one case from the corpus of a shipped parser.
func shippedInputs(r *rand.Rand, parser string, n int, maxLen int) []string {
	corpus := recgram.Corpus(parser)
	if len(corpus) == 0 {
		return nil
	}
	var out []string
	for len(out) < n {
		src := corpus[r.Intn(len(corpus))]
		if len(src) > maxLen {
			// a window of a large file
			s := r.Intn(len(src) - maxLen)
			src = src[s : s+maxLen]
		}
		switch k := r.Intn(10); {
		case k < 2:
			out = append(out, src)
		default:
			other := corpus[r.Intn(len(corpus))]
			out = append(out, recgram.MutateText(r, src, other, 1+r.Intn(3)))
		}
	}
	return out
}

func c19ShippedCase(c *fw.Ctx, parser string) {
	thorough := c.Tier == "thorough"
	n := 6000
	if thorough {
		n = 20000
	}
	if parser == "js" {
		n /= 3 // three dialects
	}
	r := c.R
	inputs := shippedInputs(r, parser, n, 6000)
	if len(inputs) == 0 {
		c.Count("corpus_missing_"+parser, 1)
		return
	}
	entries := recgram.ShippedEntries[parser]
	recgram.ResetShared()
	recovering := parser == "js" || parser == "tm"
	distinct := 0
	for i, text := range inputs {
		o := recgram.SOpts{Parser: parser, KeepEvents: false, MaxEvents: 400*(len(text)+2) + 1000}
		if r.Intn(5) == 0 {
			o.Entry = r.Intn(len(entries))
		}
		dialects := 1
		if parser == "js" {
			dialects = 3
		}
		for d := 0; d < dialects; d++ {
			o.Dialect = d
			o.EH = []int{-1, -1, 0, 3}[r.Intn(4)]
			if i < 40 {
				c.Note(map[string]string{"input.txt": text, "parser.txt": fmt.Sprintf("%s entry %d dialect %d policy %d", parser, o.Entry, d, o.EH)})
			}
			run := recgram.RunShipped(text, o)
			c.Eval(1)
			t := &genrun.Trace{OK: run.OK, ErrKind: run.ErrKind, Err: run.Err, S: run.S, E: run.E, EH: run.EH, Panic: run.Panic}
			// the same input on the long-lived parsers of this case (with and without a new Init)
			for variant, who := range []string{"reused-parser", "reused-parser-without-reinit"} {
				ro := o
				ro.Reuse, ro.NoReinit = variant == 0, variant == 1
				rrun := recgram.RunShipped(text, ro)
				rt := &genrun.Trace{OK: rrun.OK, ErrKind: rrun.ErrKind, Err: rrun.Err, S: rrun.S, E: rrun.E, EH: rrun.EH, Panic: rrun.Panic}
				if run.Panic != "" {
					continue
				}
				if rrun.Panic != "" {
					c.Violate("shipped-"+parser+"/"+who+"/panic/"+fw.Skeleton(firstLine(rrun.Panic)), fmt.Sprintf("text %q\n%s", text, rrun.Panic), map[string]string{"input.txt": text})
				} else if diff := c19TraceDiff(t, rt); diff != "" || run.N != rrun.N || run.H != rrun.H {
					if diff == "" {
						diff = "events"
					}
					c.Violate("shipped-"+parser+"/"+who+"/differs-from-fresh-parser/"+diff, fmt.Sprintf("shipped parser %s, entry %d, dialect %d, handler policy %d\ntext: %q\nfresh parser:  ok=%v errkind=%s [%d,%d) events=%d handler calls: %s\nreused parser: ok=%v errkind=%s [%d,%d) events=%d handler calls: %s",
						parser, o.Entry, d, o.EH, text, run.OK, run.ErrKind, run.S, run.E, run.N, recgram.EHString(run.EH), rrun.OK, rrun.ErrKind, rrun.S, rrun.E, rrun.N, recgram.EHString(rrun.EH)), map[string]string{"input.txt": text})
				} else if variant == 1 {
					c.Count("reused_parser_without_reinit_runs_identical_to_fresh", 1)
				} else {
					c.Count("reused_parser_runs_identical_to_fresh", 1)
				}
			}
			desc := func() string {
				return fmt.Sprintf("shipped parser %s, entry %s, dialect %d, handler policy %d\ntext: %q\nparser: ok=%v errkind=%s err=%q [%d,%d)\nhandler calls: %s",
					parser, entries[o.Entry], d, o.EH, text, run.OK, run.ErrKind, run.Err, run.S, run.E, recgram.EHString(run.EH))
			}
			pol := o.EH
			if !recovering {
				pol = -2 // no handler: a returned syntax error is not preceded by a handler call
			}
			if !c19Safety(c, "shipped-"+parser+"/", text, pol, t, desc, map[string]string{"input.txt": text}) {
				continue
			}
			c.Count("shipped_"+parser+"_runs", 1)
			if run.OK && len(run.EH) == 0 {
				c.Count("shipped_"+parser+"_accepted_clean", 1)
			}
			if len(run.EH) > 0 {
				c.Count("shipped_"+parser+"_runs_with_errors", 1)
				if run.OK {
					c.Count("shipped_"+parser+"_recovered", 1)
				}
				if len(run.EH) >= 2 && distinct < 400 {
					c.Distinct(parser + "\x00" + text)
					distinct++
				}
			} else if !run.OK {
				c.Count("shipped_"+parser+"_rejected", 1)
				if !recovering && distinct < 100 {
					c.Distinct(parser + "\x00" + text)
					distinct++
				}
			}
		}
	}
}

func c19Layout(tier string) (nGen, nShipped int) {
	if tier == "thorough" {
		return 40, 12
	}
	return 6, 4
}

func c19Run(c *fw.Ctx) {
	nGen, _ := c19Layout(c.Tier)
	if c.Case < nGen {
		c19Generated(c)
		return
	}
	c19ShippedCase(c, c19Shipped[(c.Case-nGen)%len(c19Shipped)])
}

func init() {
	fw.Register(&fw.Check{
		ID:          "C19",
		Rule:        "generated cases: grammar pairs (G, G') where G' is a plain CFG and G adds alternatives using 'error' (families: statement/block/argument-list/expression skeletons with error at statement, list-element and bracket level, '.recoveryScope' markers, LR(0) marker nonterminals; random CFGs with error in random places), both printed under the same random option vector (8 table-option vectors, fixWhitespace, reported/unreported comments, reported invalid tokens, tokenStream, tokenLine) and both accepted by compiler.Compile without conflicts; G must have recovery enabled. Inputs per start symbol: sampled sentences of G' (also with comments / foreign characters), 1-3 token mutations, truncations, random token strings, raw character garbage, a long sentence (150-4000 tokens) and the same with many errors; every input runs under 'continue always' and one of 'stop at first' / 'stop at k-th' on a fresh Parser, and once more on a long-lived Parser object shared by all such runs of the grammar (one object re-initialised through Init before each parse, another initialised only once): result, handler calls and events must equal the fresh-parser run. Monitor: no panic/crash/CPU limit, events <= 400*(len+2)+1000 and handler calls <= len+16, handler offsets inside the input, ordered and non-decreasing, a stop request ends the parse with an error, syntax errors are preceded by a handler call; Earley on G' classifies token-level inputs: non-sentences must not be accepted without a handler call, sentences must produce no handler call and exactly the twin's events and value. Shipped cases: js (3 dialects), tm, test, json parsers imported from the repository run on their test-suite snippets and repository files (.tm/.tmerr/.ts/.js/.json), mostly with 1-3 text mutations (token deletion/duplication/swap/replacement, bracket and garbage insertion, truncation), same safety monitor, each input also on long-lived Parser/TokenStream/Lexer objects with the same comparison. Pair non-trivial/distinct: >=5 sentences identical to the twin and >=5 non-sentences reported; shipped input non-trivial: >=2 handler calls (js/tm) or rejected (test/json)",
		Assumptions: []string{"Earley recognizer in internal/cfg is correct", "the generated lexer tokenizes space-separated literals correctly (C11)", "conflict-freeness is taken from the compiler's own report (C03)", "event correctness of the recovery-free twin is C02's property: the twin's events are the reference here"},
		Cases: func(tier string) int {
			a, b := c19Layout(tier)
			return a + b
		},
		Par:           8,
		Run:           c19Run,
		CPUBudget:     1200,
		MinNontrivial: func(tier string) int { return 60 },
		RequiredCounters: []string{"sentences_identical_to_twin", "non_sentences_reported", "handler_calls_checked", "recovered_to_acceptance", "stopped_by_handler", "reused_parser_runs_identical_to_fresh", "reused_parser_without_reinit_runs_identical_to_fresh",
			"runs_with_3plus_errors", "pairs_skeleton", "pairs_random", "inputs_long-errors", "inputs_raw",
			"shipped_js_runs_with_errors", "shipped_tm_runs_with_errors", "shipped_js_recovered", "shipped_tm_recovered", "shipped_test_rejected", "shipped_json_rejected",
			"shipped_js_accepted_clean", "shipped_tm_accepted_clean"},
	})
}
