package checks

import (
	"fmt"
	"os"
	"os/exec"
	"path/filepath"
	"strings"
	"time"

	"verif/internal/fw"
	"verif/internal/lspc"
)

// C23 – the language server under any message history.
//
// Each case is a batch of histories. Every history is run against a fresh
// `textmapper ls` process (race-detector build of /repo's working tree, tag
// verif) over stdin/stdout; everything is recorded with logical sequence
// numbers and judged offline (internal/lspc/monitor.go).

func c23RepoDir() string {
	if d := os.Getenv("VERIF_REPO"); d != "" {
		return d
	}
	cmd := exec.Command("go", "list", "-m", "-f", "{{.Dir}}", "github.com/inspirer/textmapper")
	if root := os.Getenv("VERIF_ROOT"); root != "" {
		cmd.Dir = root
	}
	cmd.Env = append(os.Environ(), "GOFLAGS=-mod=mod", "GOPROXY=off", "GOTOOLCHAIN=auto")
	out, err := cmd.Output()
	if d := strings.TrimSpace(string(out)); err == nil && d != "" {
		return d
	}
	return "/repo"
}

// c23Server builds the server once per child process (the scratch dir is new
// for every run of the check, so the binary always reflects the current tree).
func c23Server(c *fw.Ctx, repo string) (string, bool) {
	bin := filepath.Join(c.WorkDir, "textmapper")
	if _, err := os.Stat(bin); err == nil {
		return bin, true
	}
	cmd := exec.Command("go", "build", "-race", "-tags", "verif", "-o", bin, "./cmd/textmapper")
	cmd.Dir = repo
	cmd.Env = append(os.Environ(), "GOFLAGS=-mod=mod", "GOPROXY=off", "GOTOOLCHAIN=auto")
	if out, err := cmd.CombinedOutput(); err != nil {
		fmt.Fprintf(os.Stderr, "C23: building the server failed: %v\n%s\n", err, out)
		c.Count("server_build_failed", 1)
		return "", false
	}
	c.Count("server_builds", 1)
	return bin, true
}

func c23HistoriesPerCase(tier string) int {
	if tier == "thorough" {
		return 25
	}
	return 10
}

func c23Files(h *lspc.History, rec *lspc.Recording) map[string]string {
	var hs, log strings.Builder
	for _, ev := range rec.Events {
		body := ev.Body
		if len(body) > 20000 {
			body = append(append([]byte{}, body[:20000]...), "...(truncated)"...)
		}
		if ev.Dir == 'C' {
			fmt.Fprintf(&hs, "%s\n", ev.Body)
		}
		fmt.Fprintf(&log, "%6d %c %s\n", ev.Seq, ev.Dir, body)
		if log.Len() > 4<<20 {
			log.WriteString("...(log truncated)\n")
			break
		}
	}
	fmt.Fprintf(&log, "stdin closed at %d, stdout EOF at %d, exit code %d\n", rec.StdinClosedAt, rec.EOFAt, rec.ExitCode)
	st := rec.Stderr
	if len(st) > 200000 {
		st = st[:50000] + "\n...\n" + st[len(st)-150000:]
	}
	hist := hs.String()
	if len(hist) > 8<<20 {
		hist = hist[:8<<20]
	}
	return map[string]string{
		"history.jsonl":     hist,
		"log.txt":           log.String(),
		"server-stderr.txt": st,
		"mode.txt":          fmt.Sprintf("mode=%s delays=%q ascii=%v\nreplay: write history.jsonl line by line with Content-Length framing to `textmapper ls`\n", lspc.ModeNames[h.Mode], h.DelaySpec, h.ASCII),
	}
}

func init() {
	fw.Register(&fw.Check{
		ID: "C23",
		Rule: "a case is a batch of histories; a history = initialize (one workspace folder), initialized, then random didOpen/didChange (full text; rarely several or zero contentChanges entries)/didClose/definition over 1-4 documents, " +
			"unknown methods, $/cancelRequest (numeric and string ids), requests on closed and never-opened documents, hostile positions (beyond line/document end, inside a surrogate pair, 2^32-1), optional shutdown/exit; " +
			"version numbers are the client's (1 at didOpen, +1 per change, sometimes continued, repeated or skipped), so (uri, version) pairs recur after a reopen; " +
			"the first pipelined histories of a case contain documents of 64-128 KiB (also exactly 65535/65536/65537 bytes) immediately followed by a tiny change; " +
			"delivery lock-step / pipelined (120-320 messages written without waiting) / pipelined with VERIF_LS_DELAYS; document versions are synthetic grammars or repository grammars (parsers/*/*.tm, compiler/testdata/*) with " +
			"identifiers renamed name_v<version>, stamp-dependent layout, injected compile and syntax errors, CRLF, and (unless the history is ASCII-only) BMP and astral text in comments/strings/quoted terminals before identifiers and error sites. " +
			"Run on the -race build of the real server. Non-trivial distinct observation = a (content, identifier) pair whose definition reply was verified, or a content whose diagnostics were verified",
		Assumptions: []string{
			"compiler.Compile (called in the check process on the same content) defines the diagnostics of a version; its byte offsets are trusted, positions are recomputed independently as line + UTF-16 units",
			"for repository grammars the tm lexer's tokenisation defines what an identifier occurrence is (synthetic grammars: by construction)",
			"request order = order in which the client wrote the messages to stdin (single connection)",
			"a missing answer is only reported after a later ping was answered (handler chain drained) and a grace period passed",
		},
		Par: 8,
		Cases: func(tier string) int {
			if tier == "thorough" {
				return 36
			}
			return 6
		},
		CPUBudget: 3000,
		Run:       c23Run,
		MinNontrivial: func(tier string) int {
			if tier == "thorough" {
				return 20000
			}
			return 1000
		},
		RequiredCounters: []string{
			"histories_lockstep", "histories_pipelined", "histories_pipelined+delays", "histories_ascii_only",
			"server_alive_until_stdin_closed", "publications_checked", "publications_nonempty", "diagnostic_ranges_checked",
			"diag_verdict_ok", "definition_ok", "definition_on_closed_rejected", "definition_invalid_position_rejected",
			"error_replies_unknown_method", "register_histories_linearizable", "register_reads_identified",
			"diagnostics_multiline_range", "sent_close", "sent_cancel", "race_detector_runs", "corpus_documents", "synthetic_documents",
			"publications_for_documents_64k_and_more", "version_numbers_reused", "definition_after_version_reuse",
		},
	})
}

func c23Run(c *fw.Ctx) {
	repo := c23RepoDir()
	bin, ok := c23Server(c, repo)
	if !ok {
		return
	}
	corpusAll := lspc.LoadCorpus(repo)
	var corpus []lspc.CorpusFile
	for _, f := range corpusAll {
		// the two big grammars take seconds per compile under the race detector
		if len(f.Text) < 16000 || c.Tier == "thorough" && c.R.Intn(4) == 0 && len(f.Text) < 40000 {
			corpus = append(corpus, f)
		}
	}
	reported := map[string]int{}
	bigDone := map[int]bool{}
	n := c23HistoriesPerCase(c.Tier)
	for j := 0; j < n; j++ {
		r := c.SubRand(j)
		k := c.Case*n + j
		o := lspc.GenOpts{Mode: k % 3, ASCII: k%5 < 2, Corpus: corpus}
		switch o.Mode {
		case lspc.LockStep:
			o.NOps = 30 + r.Intn(50)
		default:
			o.NOps = 120 + r.Intn(200)
		}
		switch k % 12 {
		case 7:
			o.KillEmptyChanges = true
		case 10:
			o.KillNonFileURI = true
		}
		// large documents followed by a tiny change: in the first pipelined and the
		// first pipelined+delays history of every case
		if o.Mode != lspc.LockStep && !bigDone[o.Mode] {
			bigDone[o.Mode] = true
			o.BigPairs = 3 - o.Mode
		}
		h := lspc.Generate(r, o)
		for _, m := range h.Msgs {
			for _, d := range m.Docs {
				if strings.HasPrefix(d.Kind, "corpus:") {
					c.Count("corpus_documents", 1)
				} else if d.Kind == "synth" || d.Kind == "big" {
					c.Count("synthetic_documents", 1)
				} else {
					c.Count("raw_documents", 1)
				}
				if !d.ASCII {
					c.Count("documents_with_nonascii", 1)
				}
			}
		}
		dir := filepath.Join(c.WorkDir, "srv")
		rec := lspc.Run(h, lspc.RunOpts{Binary: bin, Dir: dir, Watchdog: 10 * time.Minute, Grace: 15 * time.Second})
		c.Note(map[string]string{"note.txt": fmt.Sprintf("case %d history %d: offline monitors running", c.Case, j)})
		rep := lspc.Check(h, rec, func(name, text string) {
			c.Note(map[string]string{name: text, "note.txt": fmt.Sprintf("case %d history %d: compiler.Compile on this content in the check process", c.Case, j)})
		})
		for name, v := range rep.Counters {
			c.Count(name, v)
		}
		if rep.Inconclusive != "" {
			c.Count("histories_inconclusive", 1)
			continue
		}
		c.Eval(1)
		for _, d := range rep.Distinct {
			c.Distinct(d)
		}
		if j == 0 {
			var first []string
			for i, m := range h.Msgs {
				if i >= 6 {
					break
				}
				b := string(m.Body)
				if len(b) > 400 {
					b = b[:400] + "..."
				}
				first = append(first, b)
			}
			c.Sample(map[string]any{"mode": lspc.ModeNames[h.Mode], "messages": len(h.Msgs), "ascii_only": h.ASCII, "first_messages": first})
		}
		var files map[string]string
		for _, f := range rep.Findings {
			c.Count("findings_total", 1)
			c.Count("finding:"+f.Sig, 1)
			reported[f.Sig]++
			if reported[f.Sig] == 1 {
				if files == nil {
					files = c23Files(h, rec)
				}
				c.Violate(f.Sig, fmt.Sprintf("history %d of case %d (%s, %d messages)\n%s", j, c.Case, lspc.ModeNames[h.Mode], len(h.Msgs), f.Detail), files)
			} else if reported[f.Sig] <= 3 {
				c.Violate(f.Sig, firstN(f.Detail, 600), nil)
			}
		}
	}
	os.RemoveAll(filepath.Join(c.WorkDir, "srv"))
}

func firstN(s string, n int) string {
	if len(s) > n {
		return s[:n]
	}
	return s
}
