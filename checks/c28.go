package checks

import (
	"context"
	"fmt"
	"go/ast"
	"go/parser"
	"go/token"
	"math/rand"
	"regexp"
	"sort"
	"strings"
	"unicode/utf8"

	"github.com/inspirer/textmapper/compiler"
	"github.com/inspirer/textmapper/gen"
	"github.com/inspirer/textmapper/grammar"
	tmtoken "github.com/inspirer/textmapper/parsers/tm/token"
	"github.com/inspirer/textmapper/status"
	"github.com/inspirer/textmapper/util/ident"
	"verif/internal/fw"
	"verif/internal/tmmut"
)

// C28 – symbol names map to valid target identifiers.
//
// Refuting events: for a name the tm lexer admits as ID / soft keyword / quoted id /
// string, the identifier is empty, not a legal identifier of Go, C++ and TypeScript,
// or not in the requested style; a grammar in which two distinct symbols get the
// same identifier compiles without an error; a compiled grammar whose token.go has
// fewer constants than terminals.

var (
	// the lexer rules of parsers/tm/textmapper.tm, transcribed
	c28ReID     = regexp.MustCompile(`^[a-zA-Z_]([a-zA-Z_\-0-9]*[a-zA-Z_0-9])?$`)
	c28ReQuoted = regexp.MustCompile(`^'([^\n\\']|\\[^\n])*'$`)
	c28ReScon   = regexp.MustCompile(`^"([^\n\\"]|\\[^\n])*"$`)
	// identifiers acceptable to every target (Go, C++, TypeScript): ASCII only
	c28ReIdent = regexp.MustCompile(`^[A-Za-z_][A-Za-z0-9_]*$`)
	c28HardKw  = map[string]bool{"as": true, "false": true, "import": true, "separator": true, "set": true, "true": true}
)

const (
	admNone    = 0
	admBare    = 1 // ID or soft keyword: terminal and nonterminal names
	admQuoted  = 2 // 'x': terminal names (identifier<+Str>)
	admDQuoted = 3 // "x": terminal names
)

// c28Model is the admissibility predicate derived from the .tm lexer rules.
func c28Model(s string) int {
	switch {
	case c28ReID.MatchString(s) && !c28HardKw[s]:
		return admBare
	case c28ReQuoted.MatchString(s):
		return admQuoted
	case c28ReScon.MatchString(s):
		return admDQuoted
	}
	return admNone
}

// c28Lexer asks the real tm lexer.
func c28Lexer(s string) int {
	t, ok := tmmut.LexSingle(s)
	if !ok {
		return admNone
	}
	switch {
	case t == tmtoken.ID || tmmut.IsSoftKeyword(t):
		return admBare
	case t == tmtoken.QUOTED_ID:
		return admQuoted
	case t == tmtoken.SCON:
		return admDQuoted
	}
	return admNone
}

func c28NameClass(n string, adm int) string {
	kind, inner := "bare", n
	switch adm {
	case admQuoted:
		kind, inner = "quoted", n[1:len(n)-1]
	case admDQuoted:
		kind, inner = "dquoted", n[1:len(n)-1]
	}
	alnum, onlyUnderscore := false, inner != ""
	for i := 0; i < len(inner); i++ {
		b := inner[i]
		if b >= 'a' && b <= 'z' || b >= 'A' && b <= 'Z' || b >= '0' && b <= '9' {
			alnum = true
		}
		if b != '_' {
			onlyUnderscore = false
		}
	}
	_ = onlyUnderscore
	switch {
	case inner == "":
		return kind + "/empty-content"
	case !alnum:
		return kind + "/no-ascii-alnum"
	}
	return kind + "/has-alnum"
}

var c28StyleName = map[ident.Style]string{ident.CamelCase: "CamelCase", ident.CamelLower: "CamelLower", ident.UpperCase: "UpperCase", ident.UpperUnderscores: "UpperUnderscores"}

func c28FirstBad(id string) string {
	for i, r := range id {
		ok := r == '_' || r >= 'a' && r <= 'z' || r >= 'A' && r <= 'Z' || i > 0 && r >= '0' && r <= '9'
		if !ok {
			switch {
			case r >= '0' && r <= '9':
				return "leading-digit"
			case r == utf8.RuneError:
				return "invalid-utf8"
			case r > 0x7f:
				return "non-ascii"
			case r < 0x20 || r == 0x7f:
				return "control-char"
			case r == ' ':
				return "space"
			default:
				return "punctuation"
			}
		}
	}
	return "none"
}

// c28CheckID judges one identifier. where = "ident" (pure function level) or
// "syms" (observed in grammar.Syms). primary = the style/name combination is the one
// that produces grammar.Syms[].ID (terminals: UpperCase, nonterminals: CamelCase).
func c28CheckID(c *fw.Ctx, where, name string, adm int, style ident.Style, id string, primary bool, files map[string]string) bool {
	st := c28StyleName[style]
	cls := c28NameClass(name, adm)
	pfx := where
	if !primary {
		pfx = "aux-" + where
	}
	detail := func(what string) string {
		return fmt.Sprintf("name %q (%s), style %s: identifier %q %s", name, cls, st, id, what)
	}
	if id == "" {
		if primary {
			c.Violate(fmt.Sprintf("%s/empty/style=%s/%s", pfx, st, cls), detail("is empty"), files)
			return false
		}
		// non-primary uses (field names, provisional names) have documented fallbacks for ""
		c.Count("aux_empty_ids", 1)
		return true
	}
	if !c28ReIdent.MatchString(id) {
		c.Violate(fmt.Sprintf("%s/invalid/style=%s/%s/%s", pfx, st, c28FirstBad(id), cls), detail("is not [A-Za-z_][A-Za-z0-9_]* (C++/TypeScript/Go identifier)"), files)
		return false
	}
	if !ident.IsValid(id) {
		c.Violate(fmt.Sprintf("%s/not-IsValid/style=%s/%s", pfx, st, cls), detail("is rejected by ident.IsValid"), files)
		return false
	}
	if primary && !token.IsIdentifier(id) {
		c.Violate(fmt.Sprintf("%s/go-keyword/style=%s/%s", pfx, st, cls), detail("is a Go keyword"), files)
		return false
	}
	if id == "_" {
		c.Count("blank_identifier_ids", 1)
	}
	// style conformance
	first, _ := utf8.DecodeRuneInString(id)
	switch style {
	case ident.UpperCase:
		if strings.ToUpper(id) != id {
			c.Violate(fmt.Sprintf("%s/style/UpperCase-has-lower-case/%s", pfx, cls), detail("contains lower-case letters"), files)
			return false
		}
	case ident.CamelCase:
		if first >= 'a' && first <= 'z' {
			c.Violate(fmt.Sprintf("%s/style/CamelCase-starts-lower/%s", pfx, cls), detail("starts with a lower-case letter"), files)
			return false
		}
	case ident.CamelLower:
		if first >= 'A' && first <= 'Z' {
			c.Violate(fmt.Sprintf("%s/style/CamelLower-starts-upper/%s", pfx, cls), detail("starts with an upper-case letter"), files)
			return false
		}
	}
	return true
}

// c28Name runs the pure-function checks for one candidate spelling.
func c28Name(c *fw.Ctx, s string) int {
	c.Eval(1)
	model, lex := c28Model(s), c28Lexer(s)
	if model != lex {
		c.Violate(fmt.Sprintf("harness/admissibility-model-mismatch/model=%d/lexer=%d", model, lex), fmt.Sprintf("candidate %q: the rules transcribed from textmapper.tm say class %d, the tm lexer says %d", s, model, lex), nil)
		return admNone
	}
	if lex == admNone {
		c.Count("candidates_not_admissible", 1)
		return admNone
	}
	c.Count([]string{"", "names_bare", "names_quoted", "names_dquoted"}[lex], 1)
	ok := true
	// terminals (every admissible spelling): UpperCase
	up := ident.Produce(s, ident.UpperCase)
	ok = c28CheckID(c, "ident", s, lex, ident.UpperCase, up, true, nil) && ok
	// nonterminals (bare spellings only): CamelCase
	cc := ident.Produce(s, ident.CamelCase)
	ok = c28CheckID(c, "ident", s, lex, ident.CamelCase, cc, lex == admBare, nil) && ok
	// derived uses: field names
	ok = c28CheckID(c, "ident", s, lex, ident.CamelLower, ident.Produce(s, ident.CamelLower), false, nil) && ok
	// provisional nonterminal names are produced from terminal IDs in CamelCase
	if up != "" && c28ReID.MatchString(up) {
		ok = c28CheckID(c, "ident", up, admBare, ident.CamelCase, ident.Produce(up, ident.CamelCase), false, nil) && ok
	}
	if ident.Produce(s, ident.UpperCase) != up {
		c.Violate("ident/nondeterministic", fmt.Sprintf("Produce(%q, UpperCase) differs between two calls", s), nil)
	}
	c.Count("identifiers_checked", 4)
	if ok {
		c.Distinct("n:" + s)
	}
	return lex
}

var c28Alphabet = []string{"a", "A", "1", "_", "-", "'", "\"", "\\", "$", " ", "+", "é", "😀", "\t"}

// c28Enum calls f for every string over c28Alphabet of length 0..maxLen whose
// index is congruent to slice modulo slices.
func c28Enum(maxLen, slice, slices int, f func(string)) int {
	n := 0
	idx := 0
	var cur []int
	var rec func(depth int)
	buf := make([]byte, 0, 32)
	rec = func(depth int) {
		if idx%slices == slice {
			buf = buf[:0]
			for _, k := range cur {
				buf = append(buf, c28Alphabet[k]...)
			}
			f(string(buf))
			n++
		}
		idx++
		if depth == maxLen {
			return
		}
		for k := range c28Alphabet {
			cur = append(cur, k)
			rec(depth + 1)
			cur = cur[:len(cur)-1]
		}
	}
	rec(0)
	return n
}

var c28Wide = []string{"a", "b", "z", "A", "Z", "Q", "0", "9", "_", "_", "-", "-", "$", " ", "+", "*", "/", "%", "(", ")", "{", "}", "[", "]", "<", ">", "=", "!", "?", ":", ";", ",", ".", "#", "@", "&", "|", "^", "~", "`", "\\\\", "\\'", "\\\"", "\\n", "\\x", "\t", "\x00", "\x7f", "\u00e9", "\u00c9", "\u00df", "\u00f1", "\u03a9", "\u0436", "\u0663", "\u4e2d", "\U0001f600", "\u0301", "\u200f", "\u00a0", "\xff", "\xc3", "\xed\xa0\x80", "\ufffd", "\ufeff"}

func c28RandomName(r *rand.Rand) string {
	n := 1 + r.Intn(12)
	if r.Intn(8) == 0 {
		n = 12 + r.Intn(40)
	}
	var b strings.Builder
	switch r.Intn(4) {
	case 0: // bare
		al := "abcxyzABCXYZ0189__--"
		for i := 0; i < n; i++ {
			b.WriteByte(al[r.Intn(len(al))])
		}
		return b.String()
	case 1: // keywords and near-keywords
		kw := []string{"as", "false", "import", "separator", "set", "true", "assert", "brackets", "class", "empty", "expect", "expect-rr", "explicit", "extend", "flag", "generate", "global", "inject", "inline", "input", "interface", "lalr", "language", "layout", "left", "lexer", "lookahead", "no-eoi", "nonassoc", "nonempty", "param", "parser", "prec", "right", "s", "shift", "space", "x", "eoi", "error", "invalid_token", "func", "type", "int", "class", "var", "NULL", "EOF", "goto", "range"}
		s := kw[r.Intn(len(kw))]
		switch r.Intn(5) {
		case 0:
			return strings.ToUpper(s)
		case 1:
			return "'" + s + "'"
		case 2:
			return "\"" + s + "\""
		case 3:
			return s + "_"
		}
		return s
	default: // quoted / double-quoted over the wide alphabet
		q := "'"
		if r.Intn(3) == 0 {
			q = "\""
		}
		b.WriteString(q)
		for i := 0; i < n; i++ {
			b.WriteString(c28Wide[r.Intn(len(c28Wide))])
		}
		b.WriteString(q)
		return b.String()
	}
}

// ---------------------------------------------------------------------------
// grammar level

type memWriter map[string]string

func (w memWriter) Write(name, content string) error { w[name] = content; return nil }

func c28Compile(c *fw.Ctx, text string) (*grammar.Grammar, error, bool) {
	c.Note(map[string]string{"grammar.tm": text})
	c.Count("grammars_compiled", 1)
	var g *grammar.Grammar
	var err error
	ok := c.Guard("compile", map[string]string{"grammar.tm": text}, func() {
		g, err = compiler.Compile(context.Background(), "g.tm", text, compiler.Params{})
	})
	return g, err, ok
}

// c28TokenGo generates code for g in memory and compares the constants of
// token/token.go (as seen by go/parser) with the terminals of the grammar.
func c28TokenGo(c *fw.Ctx, g *grammar.Grammar, text string) {
	w := memWriter{}
	files := map[string]string{"grammar.tm": text}
	var gerr error
	if !c.Guard("generate", files, func() { gerr = gen.Generate(g, w, gen.Options{}) }) {
		return
	}
	if gerr != nil {
		c.Count("generate_errors", 1) // other files are C17's business; token.go is produced first
	}
	var name string
	switch g.TargetLang {
	case "go":
		name = "token/token.go"
	case "ts":
		name = "token.ts"
	}
	src, ok := w[name]
	if !ok {
		c.Count("token_file_not_generated", 1)
		return
	}
	files[name] = src
	var want []string
	for _, s := range g.Syms[:g.NumTokens] {
		want = append(want, s.ID)
	}
	var got []string
	if g.TargetLang == "go" {
		fset := token.NewFileSet()
		f, err := parser.ParseFile(fset, "token.go", src, 0)
		if err != nil {
			c.Violate("tokengo/unparsable", fmt.Sprintf("generated token.go does not parse: %v (terminal IDs %q)", err, want), files)
			return
		}
		for _, d := range f.Decls {
			gd, ok := d.(*ast.GenDecl)
			if !ok || gd.Tok != token.CONST {
				continue
			}
			for _, sp := range gd.Specs {
				for _, n := range sp.(*ast.ValueSpec).Names {
					got = append(got, n.Name)
				}
			}
		}
		c.Count("token_go_files_parsed", 1)
	} else {
		re := regexp.MustCompile(`(?m)^\s*([^\s=]*)\s*(= -?\d+)?,`)
		for _, m := range re.FindAllStringSubmatch(src, -1) {
			got = append(got, m[1])
		}
		c.Count("token_ts_files_scanned", 1)
	}
	exp := append(append([]string{"UNAVAILABLE"}, want...), "NumTokens")
	if len(got) != len(exp) {
		c.Violate(fmt.Sprintf("token-file/constant-count/lang=%s/delta=%+d", g.TargetLang, len(got)-len(exp)), fmt.Sprintf("%s declares %d constants %q, the grammar has %d terminals (+UNAVAILABLE, NumTokens): %q", name, len(got), got, len(want), want), files)
		return
	}
	for i := range exp {
		if !c28ReIdent.MatchString(got[i]) {
			c.Violate("token-file/invalid-constant-name/lang="+g.TargetLang, fmt.Sprintf("%s constant #%d is spelled %q (terminal IDs %q)", name, i, got[i], want), files)
			return
		}
		if got[i] != exp[i] {
			c.Violate("token-file/constant-name-mismatch/lang="+g.TargetLang, fmt.Sprintf("%s constant #%d is %q, terminal ID is %q", name, i, got[i], exp[i]), files)
			return
		}
	}
	c.Count("token_constants_matched", int64(len(want)))
}

// c28Syms checks the identifiers of a successfully compiled grammar.
func c28Syms(c *fw.Ctx, g *grammar.Grammar, text string) bool {
	files := map[string]string{"grammar.tm": text}
	ok := true
	seen := map[string]string{}
	for _, s := range g.Syms {
		adm := c28Lexer(s.Name)
		if adm == admNone {
			// generated names (list/opt/template instances, mid-rule actions): bare-like
			adm = admBare
			c.Count("generated_symbols_checked", 1)
		}
		style := ident.CamelCase
		kind := "nonterminal"
		if s.Index < g.NumTokens {
			style, kind = ident.UpperCase, "terminal"
		}
		c.Count("sym_ids_checked", 1)
		if !c28CheckID(c, "syms/"+kind, s.Name, adm, style, s.ID, true, files) {
			ok = false
		}
		if prev, dup := seen[s.ID]; dup && s.ID != "" {
			c.Violate("collision/undetected/compiled-grammar/"+kind, fmt.Sprintf("grammar compiled without errors but symbols %q and %q both have ID %q", prev, s.Name, s.ID), files)
			ok = false
		}
		seen[s.ID] = s.Name
	}
	return ok
}

func c28HasSyntaxError(err error) bool {
	if err == nil {
		return false
	}
	if _, ok := err.(status.Status); ok {
		return false
	}
	if _, ok := err.(*status.Error); ok {
		return false
	}
	return true // tm.SyntaxError
}

// c28Single declares one admissible name as a terminal (lexer-only grammar, go or
// ts target) or as a nonterminal and checks what the compiler made of it.
func c28Single(c *fw.Ctx, name string, adm int, asNonterm bool, lang string) {
	var text string
	if asNonterm {
		text = fmt.Sprintf("language g(go);\n\neventBased = true\n\n:: lexer\n\ntq: /q/\n\n:: parser\n\n%%input start_;\n\nstart_ : %s ;\n\n%s : tq ;\n", name, name)
	} else {
		text = fmt.Sprintf("language g(%s);\n\n:: lexer\n\n%s: /q/\nother_: /r/\n", lang, name)
	}
	g, err, ok := c28Compile(c, text)
	if !ok {
		return
	}
	c.Eval(1)
	if c28HasSyntaxError(err) {
		// the lexer admits the spelling but the grammar syntax does not take it as a name here
		c.Count("single_rejected_by_parser", 1)
		return
	}
	if err != nil {
		c.Count("single_with_errors", 1) // e.g. collides with eoi/invalid_token: an error is what is asked for
		return
	}
	found := false
	for _, s := range g.Syms {
		if s.Name == name && (s.Index >= g.NumTokens) == asNonterm {
			found = true
		}
	}
	if !found {
		c.Violate("syms/declared-symbol-missing", fmt.Sprintf("grammar compiled but has no symbol named %q", name), map[string]string{"grammar.tm": text})
		return
	}
	c.Count("single_compiled", 1)
	good := c28Syms(c, g, text)
	if !asNonterm {
		c28TokenGo(c, g, text)
	}
	if good {
		c.Distinct("g:" + text)
	}
}

type c28Sym struct {
	nonterm  bool
	name     string
	explicit string // explicit lexeme id (terminals)
}

func (s c28Sym) id() string {
	switch {
	case s.explicit != "":
		return s.explicit
	case s.nonterm:
		return ident.Produce(s.name, ident.CamelCase)
	}
	return ident.Produce(s.name, ident.UpperCase)
}

// c28Grammar renders a grammar declaring the given symbols (plus fixed helpers).
func c28Grammar(syms []c28Sym, lang string) string {
	var lex, par, refs []string
	i := 0
	for _, s := range syms {
		if s.nonterm {
			continue
		}
		i++
		ex := ""
		if s.explicit != "" {
			ex = " (" + s.explicit + ")"
		}
		lex = append(lex, fmt.Sprintf("%s%s: /q%d/", s.name, ex, i))
	}
	hasNT := false
	for _, s := range syms {
		if !s.nonterm {
			continue
		}
		hasNT = true
		// the k-th nonterminal derives k+1 helper tokens: no conflicts between them
		par = append(par, fmt.Sprintf("%s : helper_t_%s ;", s.name, strings.Repeat(" helper_t_", len(refs)+1)))
		refs = append(refs, s.name)
	}
	var b strings.Builder
	fmt.Fprintf(&b, "language g(%s);\n\neventBased = true\n\n:: lexer\n\nhelper_t_: /h/\n%s\n", lang, strings.Join(lex, "\n"))
	if hasNT {
		fmt.Fprintf(&b, "\n:: parser\n\n%%input start_;\n\nstart_ : helper_t_ | %s ;\n\n%s\n", strings.Join(refs, " | "), strings.Join(par, "\n"))
	}
	return b.String()
}

type c28Pair struct {
	label        string
	text, ctrl   string
	idA, idB     string
	nameA, nameB string
	special      bool // the colliding symbol is generated by the compiler: the precondition is read off the compiled grammar
}

func c28MakePair(a, b c28Sym, label string) (c28Pair, bool) {
	if a.name == b.name || a.id() != b.id() {
		return c28Pair{}, false
	}
	ctrl := b
	ctrl.name = "zzq9"
	if ctrl.explicit != "" {
		ctrl.explicit = "ZZQ9X"
	}
	kinds := func(s c28Sym) string {
		switch {
		case s.nonterm:
			return "nonterm"
		case s.explicit != "":
			return "term-explicit-id"
		}
		return "term"
	}
	return c28Pair{label: kinds(a) + "+" + kinds(b) + "/" + label, text: c28Grammar([]c28Sym{a, b}, "go"), ctrl: c28Grammar([]c28Sym{a, ctrl}, "go"), idA: a.id(), idB: b.id(), nameA: a.name, nameB: b.name}, true
}

func c28DesignedPairs() []c28Pair {
	var out []c28Pair
	add := func(a, b c28Sym, label string) {
		if p, ok := c28MakePair(a, b, label); ok {
			out = append(out, p)
		}
	}
	nt := func(n string) c28Sym { return c28Sym{nonterm: true, name: n} }
	tt := func(n string) c28Sym { return c28Sym{name: n} }
	te := func(n, id string) c28Sym { return c28Sym{name: n, explicit: id} }
	for _, p := range [][2]string{{"foo_bar", "fooBar"}, {"foo-bar", "fooBar"}, {"FooBar", "foo_bar"}, {"a_b", "aB"}, {"x1", "x_1"}, {"_a", "a"}, {"a_", "a"}, {"a__b", "a_b"}, {"FOOBar", "fooBar"}, {"a-b", "a_b"}, {"_", "__"}, {"no-eoi", "noEoi"}, {"expect-rr", "expectRr"}, {"input1", "Input1"}, {"lexer", "Lexer"}} {
		add(nt(p[0]), nt(p[1]), "case-or-separator-variant")
	}
	for _, p := range [][2]string{{"'+'", "plus"}, {"'a'", "CHAR_A"}, {"a-b", "ab"}, {"'+'", "\"+\""}, {"'a'", "\"a\""}, {"foo", "FOO"}, {"foo", "Foo"}, {"'\xff'", "'\xfe'"}, {"'é'", "xe9"}, {"'\\''", "apos"}, {"'\\\\'", "esc"}, {"'foo'", "foo"}, {"''", "\"\""}, {"'=='", "assignassign"}, {"'1'", "CHAR_1"}, {"'_'", "CHAR__"}, {"'ab'", "ab"}, {"a_b", "A_B"}, {"'😀'", "u01f600"}, {"'a b'", "aspaceb"}, {"x", "X"}, {"s", "'s'"}} {
		add(tt(p[0]), tt(p[1]), "spelling-variant")
	}
	for _, p := range [][2]string{{"EOI", ""}, {"'eoi'", ""}, {"Eoi", ""}, {"INVALID_TOKEN", ""}, {"'invalid_token'", ""}} {
		// collides with a predefined terminal: the pair is (predefined, user)
		a := tt(p[0])
		pre := "eoi"
		if strings.Contains(strings.ToLower(p[0]), "invalid") {
			pre = "invalid_token"
		}
		if a.id() == ident.Produce(pre, ident.UpperCase) {
			out = append(out, c28Pair{label: "term+predefined/" + pre, text: c28Grammar([]c28Sym{a}, "go"), ctrl: c28Grammar([]c28Sym{tt("zzq9")}, "go"), idA: a.id(), idB: a.id(), nameA: pre, nameB: a.name})
		}
	}
	for _, p := range [][2]string{{"a", "A"}, {"x", "X"}, {"a1", "A1"}, {"_1", "_01"}, {"'_'", "Char_"}, {"b", "_B"}, {"c", "C_"}} {
		add(tt(p[0]), nt(p[1]), "terminal-vs-nonterminal")
	}
	add(te("foo", "BAR"), tt("bar"), "explicit-id")
	add(tt("bar"), te("foo", "BAR"), "explicit-id")
	add(te("foo", "ZZ"), te("bar", "ZZ"), "explicit-id")
	add(te("foo", "CHAR_A"), tt("'a'"), "explicit-id")
	add(te("foo", "A"), nt("A"), "explicit-id")
	out = append(out, c28Pair{label: "term-explicit-id+predefined/eoi", text: c28Grammar([]c28Sym{te("foo", "EOI")}, "go"), ctrl: c28Grammar([]c28Sym{te("foo", "ZZQ9X")}, "go"), idA: "EOI", idB: "EOI", nameA: "eoi", nameB: "foo"})

	// generated nonterminals: optional suffix, list, template instance
	special := func(label, body, user, fresh string) {
		mk := func(n string) string {
			return "language g(go);\n\neventBased = true\n\n:: lexer\n\nt: /t/\nu: /u/\n\n:: parser\n\n%input start_;\n\n" + strings.ReplaceAll(body, "@", n) + "\n"
		}
		out = append(out, c28Pair{label: "nonterm+generated/" + label, text: mk(user), ctrl: mk(fresh), nameA: "(generated)", nameB: user, special: true})
	}
	special("opt-suffix", "start_ : aopt u @ ;\na : t ;\n@ : u t ;", "Aopt", "zzq9")
	special("opt-suffix", "start_ : a_bopt u @ ;\na_b : t ;\n@ : u t ;", "aBopt", "zzq9")
	special("list", "start_ : a+ u @ ;\na : t ;\n@ : u t ;", "AList", "zzq9")
	special("list", "start_ : a+ u @ ;\na : t ;\n@ : u t ;", "aList", "zzq9")
	special("list-with-separator", "start_ : (a separator u)+ t @ ;\na : t ;\n@ : u t ;", "AListUSeparated", "zzq9")
	special("optlist", "start_ : a* u @ ;\na : t ;\n@ : u t ;", "AOptlist", "zzq9")
	special("template-instance", "%flag F;\nstart_ : e<+F> u @ ;\ne<F> : [F] t | u t ;\n@ : u t t ;", "eF", "zzq9")
	special("template-instance", "%flag F;\nstart_ : e<+F> u @ ;\ne<F> : [F] t | u t ;\n@ : u t t ;", "EF", "zzq9")
	special("terminal-list", "start_ : t+ u @ ;\n@ : u t ;", "TList", "zzq9")

	// terminal vs compiler-generated nonterminal: the UpperCase terminal ID can only meet a
	// CamelCase ID without lower-case letters, i.e. one-letter (letter+digit) nonterminals with
	// such flags, an upper-case optional suffix, or the "$n" of mid-rule actions ('$' -> '_')
	termGen := func(label, opts, body, term, fresh string) {
		mk := func(n string) string {
			return "language g(go);\n\n" + opts + "\n:: lexer\n\nt: /t/\nu: /u/\n" + n + ": /w/\n\n:: parser\n\n%input start_;\n\n" + strings.ReplaceAll(body, "@", n) + "\n"
		}
		out = append(out, c28Pair{label: "term+generated/" + label, text: mk(term), ctrl: mk(fresh), nameA: "(generated)", nameB: term, special: true})
	}
	for _, nt := range []string{"q", "z", "k1"} {
		for _, fl := range []string{"B", "F", "X2"} {
			low := strings.ToLower(nt + fl)
			for _, term := range []string{low, strings.ToLower(nt) + "-" + strings.ToLower(fl), "'" + low + "'", strings.ToUpper(low), "\"" + low + "\""} {
				termGen("template-instance", "", "%flag "+fl+";\nstart_ : "+nt+"<+"+fl+"> @ | "+nt+"<~"+fl+"> u ;\n"+nt+"<"+fl+"> : ["+fl+"] t | [!"+fl+"] u t ;", term, "zzq9")
				termGen("template-instance-inline-flag", "", "start_ : "+nt+"<+"+fl+"> @ | "+nt+"<~"+fl+"> u ;\n"+nt+"<flag "+fl+"> : ["+fl+"] t | [!"+fl+"] u t ;", term, "zzq9")
			}
		}
		for _, term := range []string{nt + "_1", strings.ToUpper(nt) + "_1", "'" + nt + "_1'", nt + "-_1"} {
			termGen("mid-rule-action", "", "start_ : "+nt+" ;\n"+nt+" : t { act() } @ ;", term, "zzq9")
		}
		for _, term := range []string{nt + "_2", strings.ToUpper(nt) + "_2"} {
			termGen("mid-rule-action", "", "start_ : "+nt+" ;\n"+nt+" : t { a1() } u { a2() } @ ;", term, "zzq9")
		}
		for _, term := range []string{nt + "x", nt + "-x", "'" + nt + "x'", strings.ToUpper(nt) + "X"} {
			termGen("opt-suffix-upper", "optInstantiationSuffix = \"X\"\n", "start_ : "+nt+"X @ ;\n"+nt+" : t ;", term, "zzq9")
		}
	}
	termGen("list", "", "start_ : q+ @ ;\nq : t ;", "q_list", "zzq9")
	termGen("list", "", "start_ : q+ @ ;\nq : t ;", "QLIST", "zzq9")
	termGen("opt-suffix", "", "start_ : qopt @ ;\nq : t ;", "QOPT", "zzq9")
	return out
}

// c28Variant derives a different spelling that should map to the same identifier.
func c28Variant(r *rand.Rand, n string) string {
	b := []byte(n)
	switch r.Intn(6) {
	case 0: // insert a separator
		p := 1 + r.Intn(len(b))
		if p >= len(b) {
			p = len(b) - 1
		}
		if p < 1 {
			return n + "_"
		}
		return string(b[:p]) + []string{"_", "-", "__", "-_"}[r.Intn(4)] + string(b[p:])
	case 1: // drop a separator
		for i, ch := range b {
			if (ch == '_' || ch == '-') && i > 0 {
				return string(b[:i]) + string(b[i+1:])
			}
		}
		return "_" + n
	case 2: // flip the case of the first letter
		for i, ch := range b {
			if ch >= 'a' && ch <= 'z' {
				b[i] = ch - 32
				return string(b)
			}
			if ch >= 'A' && ch <= 'Z' {
				b[i] = ch + 32
				return string(b)
			}
		}
	case 3: // all upper / all lower
		if r.Intn(2) == 0 {
			return strings.ToUpper(n)
		}
		return strings.ToLower(n)
	case 4: // flip the case after a separator
		for i := 1; i < len(b); i++ {
			if (b[i-1] == '_' || b[i-1] == '-') && b[i] >= 'a' && b[i] <= 'z' {
				b[i] -= 32
				return string(b[:i-1]) + string(b[i:])
			}
		}
		return n + "_"
	default: // leading / trailing underscore
		if r.Intn(2) == 0 {
			return "_" + n
		}
		return n + "_"
	}
	return n + "_"
}

func c28RunPair(c *fw.Ctx, p c28Pair) {
	c.Eval(1)
	_, cerr, ok := c28Compile(c, p.ctrl)
	if !ok {
		return
	}
	if cerr != nil {
		c.Count("pair_control_failed", 1)
		return
	}
	g, err, ok := c28Compile(c, p.text)
	if !ok {
		return
	}
	files := map[string]string{"grammar.tm": p.text, "control.tm": p.ctrl}
	if err == nil && p.special {
		// whether the generated name really collides is visible in the compiled grammar
		seen := map[string]string{}
		for _, s := range g.Syms {
			if prev, dup := seen[s.ID]; dup && s.ID != "" {
				c.Violate("collision/undetected/"+p.label, fmt.Sprintf("symbols %q and %q both get identifier %q, yet the grammar compiles without any error (the control grammar with %q renamed compiles too)", prev, s.Name, s.ID, p.nameB), files)
				return
			}
			seen[s.ID] = s.Name
		}
		c28Syms(c, g, p.text)
		c.Count("special_pair_precondition_not_met", 1)
		c.Count("precondition_not_met/"+p.label, 1)
		return
	}
	if err == nil {
		c.Violate("collision/undetected/"+p.label, fmt.Sprintf("symbols %q and %q both get identifier %q, yet the grammar compiles without any error (the control grammar with the second symbol renamed compiles too)", p.nameA, p.nameB, p.idA), files)
		return
	}
	same := false
	for _, e := range status.FromError(err) {
		if strings.Contains(e.Msg, "get the same ID") {
			same = true
		}
	}
	if same {
		c.Count("collisions_reported_same_id", 1)
	} else {
		c.Count("collisions_reported_other_error", 1)
	}
	c.Count("pairs/"+p.label, 1)
	c.Distinct("p:" + p.text)
}

// interesting admissible names always tried at grammar level
var c28Interesting = []string{"''", "\"\"", "_", "__", "___", "'_'", "'__'", "\"_\"", "'\\''", "'\\\\'", "'\\n'", "'\\_'", "'\\1'", "'1'", "'12'", "'a'", "'A'", "'é'", "'😀'", "'\xff'", "'\x00'", "' '", "'\t'", "'a b'", "'+'", "'++'", "'$'", "'a$'", "'\"'", "\"'\"", "\"a\"", "\"+\"",
	"a", "A", "a-b", "a--b", "a_b", "_a", "a_", "_1", "a1", "A1", "no-eoi", "expect-rr", "lexer", "parser", "input", "flag", "x", "s", "left", "inline", "extend", "empty", "class", "space", "brackets", "layout", "language", "lalr", "generate", "assert", "interface", "inject", "global", "explicit", "lookahead", "param", "prec", "shift", "nonempty", "nonassoc", "right", "expect",
	"func", "type", "int", "NULL", "goto", "eoi", "error", "invalid_token", "EOI", "'eoi'", "Type", "NumTokens", "UNAVAILABLE", "String", "'%'", "'%%'", "'/*'", "'//'", "'{'", "'}'", "'`'", "'\\u1234'"}

const (
	c28EnumSlices = 16
	c28RandCases  = 8
)

func c28Run(c *fw.Ctx) {
	thorough := c.Tier == "thorough"
	maxRaw, maxInner := 4, 4
	nRand, nGram := 20000, 60
	if thorough {
		maxRaw, maxInner = 5, 5
		nRand = 200000
		nGram = 150
	}
	r := c.R
	switch {
	case c.Case < c28EnumSlices:
		// exhaustive: raw strings over the alphabet, and every string wrapped in '...' / "..."
		n := c28Enum(maxRaw, c.Case, c28EnumSlices, func(s string) { c28Name(c, s) })
		n += c28Enum(maxInner, c.Case, c28EnumSlices, func(s string) {
			c28Name(c, "'"+s+"'")
			c28Name(c, "\""+s+"\"")
		})
		c.Count("enumerated_strings", int64(n))
		if c.Case == 0 {
			for _, s := range c28Interesting {
				c28Name(c, s)
			}
		}
	case c.Case < c28EnumSlices+c28RandCases:
		for i := 0; i < nRand; i++ {
			s := c28RandomName(r)
			if i == 0 {
				c.Sample(map[string]any{"random_name": s, "UpperCase": ident.Produce(s, ident.UpperCase), "CamelCase": ident.Produce(s, ident.CamelCase)})
			}
			c28Name(c, s)
			c.Count("random_names", 1)
		}
	default:
		k := c.Case - c28EnumSlices - c28RandCases
		switch k % 4 {
		case 0: // single symbols
			var names []string
			if k == 0 {
				names = append(names, c28Interesting...)
			}
			for len(names) < nGram {
				var s string
				if r.Intn(2) == 0 {
					s = c28RandomName(r)
				} else {
					// a random member of the enumerated space
					n := r.Intn(4)
					for i := 0; i < n; i++ {
						s += c28Alphabet[r.Intn(len(c28Alphabet))]
					}
					switch r.Intn(3) {
					case 0:
						s = "'" + s + "'"
					case 1:
						s = "\"" + s + "\""
					}
				}
				if c28Lexer(s) != admNone {
					names = append(names, s)
				}
			}
			for i, s := range names {
				adm := c28Lexer(s)
				if adm == admNone {
					continue
				}
				c28Single(c, s, adm, false, []string{"go", "ts"}[i%2])
				if adm == admBare {
					c28Single(c, s, adm, true, "go")
				}
			}
		case 1: // designed and derived collision pairs
			if k == 1 {
				dp := c28DesignedPairs()
				c.Count("designed_pairs", int64(len(dp)))
				for _, p := range dp {
					c28RunPair(c, p)
				}
				if len(dp) > 0 {
					c.Sample(map[string]any{"collision_pair": dp[0].label, "grammar": dp[0].text})
				}
			}
			made := 0
			for tries := 0; made < nGram && tries < nGram*40; tries++ {
				var a string
				for {
					a = c28RandomName(r)
					if c28Lexer(a) == admBare {
						break
					}
				}
				b := c28Variant(r, a)
				if c28Lexer(b) != admBare {
					continue
				}
				var sa, sb c28Sym
				switch r.Intn(3) {
				case 0:
					sa, sb = c28Sym{nonterm: true, name: a}, c28Sym{nonterm: true, name: b}
				case 1:
					sa, sb = c28Sym{name: a}, c28Sym{name: b}
				default:
					sa, sb = c28Sym{name: a}, c28Sym{nonterm: true, name: b}
				}
				if r.Intn(6) == 0 && !sb.nonterm {
					sb.explicit = sa.id()
					if !c28ReIdent.MatchString(sb.explicit) || strings.ToUpper(sb.explicit) != sb.explicit {
						continue
					}
					sb.name = "zz" + sb.name
				}
				p, ok := c28MakePair(sa, sb, "derived")
				if !ok {
					c.Count("pair_precondition_not_met", 1)
					continue
				}
				made++
				c28RunPair(c, p)
			}
		default: // several admissible names in one grammar
			for i := 0; i < nGram/3; i++ {
				var syms []c28Sym
				used := map[string]bool{"zzq9": true, "helper_t_": true, "start_": true}
				n := 2 + r.Intn(6)
				for len(syms) < n {
					s := c28RandomName(r)
					if r.Intn(3) == 0 {
						s = c28Interesting[r.Intn(len(c28Interesting))]
					}
					adm := c28Lexer(s)
					if adm == admNone || used[s] {
						continue
					}
					used[s] = true
					syms = append(syms, c28Sym{name: s, nonterm: adm == admBare && r.Intn(2) == 0})
				}
				sort.SliceStable(syms, func(i, j int) bool { return !syms[i].nonterm && syms[j].nonterm })
				lang := []string{"go", "go", "ts"}[r.Intn(3)]
				text := c28Grammar(syms, lang)
				g, err, ok := c28Compile(c, text)
				if !ok {
					continue
				}
				c.Eval(1)
				if err != nil {
					c.Count("multi_with_errors", 1)
					continue
				}
				c.Count("multi_compiled", 1)
				good := c28Syms(c, g, text)
				c28TokenGo(c, g, text)
				if good {
					c.Distinct("g:" + text)
				}
			}
		}
	}
}

func init() {
	fw.Register(&fw.Check{
		ID:   "C28",
		Rule: "cases 0-15: EXHAUSTIVE enumeration of every string of length 0..4 (thorough: 0..5) over the 14-character alphabet {a A 1 _ - ' \" \\ $ space + é 😀 tab}, both raw and wrapped in '...' and \"...\"; a candidate is a name iff the real tm lexer returns exactly one ID / soft-keyword / quoted_id / scon token for it (cross-checked against the lexer rules transcribed from textmapper.tm); cases 16-23: random longer names (bare, keywords and near-keywords of tm/Go/C++, quoted over a 65-symbol alphabet with escapes, control characters, non-ASCII letters/digits, combining marks, invalid UTF-8). For every admissible name: ident.Produce in UpperCase (what terminals get) and, for bare names, CamelCase (what nonterminals get) must be non-empty, match [A-Za-z_][A-Za-z0-9_]*, pass ident.IsValid and go/token.IsIdentifier and conform to the style; CamelLower and CamelCase-of-the-terminal-ID (derived uses with documented fallbacks) are checked for character set and style only. Later cases, grammar level: (a) one admissible name declared as terminal (lexer-only grammar, go and ts targets) or nonterminal: if it compiles, every grammar.Syms[].ID is checked the same way, IDs must be pairwise distinct, and the generated token/token.go (go/parser) or token.ts must declare exactly UNAVAILABLE, one constant per terminal in order, NumTokens; (b) collision pairs - designed ones (separator/case variants, quoted vs bare spellings, explicit lexeme ids, predefined eoi/invalid_token, generated opt/list/template-instance nonterminals) and derived ones (random bare name + identifier-preserving respelling; the precondition 'identifiers coincide' is confirmed by calling ident.Produce) - must make the compiler return an error while the control grammar (second symbol renamed) compiles cleanly; (c) grammars with 2-7 random admissible names. A name is non-trivial when admissible; a grammar when it compiled and passed",
		Assumptions: []string{
			"target-language validity is judged by the ASCII pattern [A-Za-z_][A-Za-z0-9_]* plus go/token.IsIdentifier (Go keywords); C++/TypeScript reserved words are not consulted (UpperCase/CamelCase results cannot be lower-case keywords)",
			"the identifier '_' (Go blank identifier) is counted (blank_identifier_ids) but accepted: it is syntactically an identifier in all three languages",
			"explicit lexeme ids '(ID)' are user-chosen identifiers, not mapped names: they take part in collision tests only",
		},
		Cases: func(tier string) int {
			if tier == "thorough" {
				return c28EnumSlices + c28RandCases + 400
			}
			return c28EnumSlices + c28RandCases + 40
		},
		Run:           c28Run,
		Exhaustive:    func(string) bool { return true },
		CPUBudget:     300,
		MinNontrivial: func(tier string) int { return 20000 },
		RequiredCounters: []string{"names_bare", "names_quoted", "names_dquoted", "candidates_not_admissible", "identifiers_checked", "enumerated_strings", "random_names",
			"single_compiled", "sym_ids_checked", "token_go_files_parsed", "token_ts_files_scanned", "token_constants_matched", "designed_pairs", "collisions_reported_same_id", "multi_compiled",
			"pairs/term+generated/template-instance", "pairs/term+generated/template-instance-inline-flag", "pairs/term+generated/opt-suffix-upper", "pairs/nonterm+generated/list", "pairs/nonterm+generated/opt-suffix", "pairs/nonterm+generated/template-instance"},
	})
}
