package checks

import (
	"fmt"
	"math/rand"
	"sort"
	"strings"

	"github.com/inspirer/textmapper/util/container"
	"github.com/inspirer/textmapper/util/set"
	"verif/internal/fw"
)

// C25 – integer set algebra and set-equation closure.
//
// Reference model: a set is a subset of {0..K-1, ω} where ω stands for "every
// other integer"; co-finite sets are exactly the ones containing ω.

type mset uint32 // bit i = element i, bit 31 = ω

const omega = mset(1) << 31

func msetOf(s container.IntSet, k int) (mset, bool) {
	var m mset
	prev := -1
	for _, v := range s.Set {
		if v <= prev || v < 0 || v >= k {
			return 0, false // unsorted, duplicated or out of universe
		}
		prev = v
		m |= 1 << uint(v)
	}
	if s.Inverse {
		m = ^m & (omega | (1<<uint(k) - 1))
	}
	return m, true
}

func (m mset) intSet(k int) container.IntSet {
	var r container.IntSet
	if m&omega != 0 {
		r.Inverse = true
		for i := 0; i < k; i++ {
			if m&(1<<uint(i)) == 0 {
				r.Set = append(r.Set, i)
			}
		}
	} else {
		for i := 0; i < k; i++ {
			if m&(1<<uint(i)) != 0 {
				r.Set = append(r.Set, i)
			}
		}
	}
	return r
}

func (m mset) String() string { return m.intSet(7).String() }

func c25Algebra(c *fw.Ctx, k int) {
	full := omega | (1<<uint(k) - 1)
	n := 1 << uint(k)
	all := make([]mset, 0, 2*n)
	for i := 0; i < n; i++ {
		all = append(all, mset(i), mset(i)|omega)
	}
	for _, a := range all {
		for _, b := range all {
			for variant := 0; variant < 3; variant++ {
				as, bs := a.intSet(k), b.intSet(k)
				as.Set = append([]int(nil), as.Set...)
				bs.Set = append([]int(nil), bs.Set...)
				acopy, bcopy := append([]int(nil), as.Set...), append([]int(nil), bs.Set...)
				var reuse []int
				switch variant {
				case 1:
					reuse = make([]int, 0, 32)
				case 2:
					reuse = make([]int, 3) // small, forces growth
				}
				u := container.Merge(as, bs, reuse)
				if !container.SliceEqual(as.Set, acopy) || !container.SliceEqual(bs.Set, bcopy) {
					c.Violate("algebra/merge-mutates-input", fmt.Sprintf("Merge(%v,%v) modified its arguments", a, b), nil)
				}
				got, ok := msetOf(u, k)
				if want := (a | b) & full; !ok || got != want {
					c.Violate("algebra/merge-wrong", fmt.Sprintf("Merge(%v, %v) = %v, want %v (reuse variant %d)", a, b, u, want, variant), nil)
				}
				as.Set, bs.Set = append([]int(nil), acopy...), append([]int(nil), bcopy...)
				x := container.Intersect(as, bs, reuse)
				if !container.SliceEqual(as.Set, acopy) || !container.SliceEqual(bs.Set, bcopy) {
					c.Violate("algebra/intersect-mutates-input", fmt.Sprintf("Intersect(%v,%v) modified its arguments", a, b), nil)
				}
				got, ok = msetOf(x, k)
				if want := a & b; !ok || got != want {
					c.Violate("algebra/intersect-wrong", fmt.Sprintf("Intersect(%v, %v) = %v, want %v (reuse variant %d)", a, b, x, want, variant), nil)
				}
				c.Eval(2)
			}
			cm := a.intSet(k).Complement()
			if got, ok := msetOf(cm, k); !ok || got != (^a&full) {
				c.Violate("algebra/complement-wrong", fmt.Sprintf("Complement(%v) = %v", a, cm), nil)
			}
			if (a == 0) != a.intSet(k).Empty() {
				c.Violate("algebra/empty-wrong", fmt.Sprintf("Empty(%v)", a), nil)
			}
			if a.intSet(k).Equals(b.intSet(k)) != (a == b) {
				c.Violate("algebra/equals-wrong", fmt.Sprintf("Equals(%v,%v)", a, b), nil)
			}
			if a != 0 && b != 0 && a != full && b != full && a != b {
				c.Distinct(fmt.Sprintf("alg/%d/%d/%d", k, a, b))
			}
		}
	}
	c.Count("algebra_pairs", int64(len(all)*len(all)))
}

// --- equation systems

type sysNode struct {
	Op    int   // 0 union, 1 intersection, 2 complement
	Base  []int // union only
	Edges []int
	// Late edges are added by Include after all nodes exist (union only).
	Late []int
}

type system struct {
	K     int
	Nodes []sysNode
}

func (s system) String() string {
	var b strings.Builder
	for i, n := range s.Nodes {
		switch n.Op {
		case 0:
			fmt.Fprintf(&b, "n%d = %v", i, n.Base)
			for _, e := range append(append([]int(nil), n.Edges...), n.Late...) {
				fmt.Fprintf(&b, " | n%d", e)
			}
		case 1:
			fmt.Fprintf(&b, "n%d =", i)
			for j, e := range n.Edges {
				if j > 0 {
					b.WriteString(" &")
				}
				fmt.Fprintf(&b, " n%d", e)
			}
		case 2:
			fmt.Fprintf(&b, "n%d = ~n%d", i, n.Edges[0])
		}
		b.WriteString("; ")
	}
	return b.String()
}

func genSystem(r *rand.Rand) system {
	k := 1 + r.Intn(6)
	n := 2 + r.Intn(13)
	if r.Intn(4) == 0 {
		n = 2 + r.Intn(4)
	}
	s := system{K: k}
	randSet := func() []int {
		var set []int
		p := r.Intn(4)
		for i := 0; i < k; i++ {
			if r.Intn(4) < p {
				set = append(set, i)
			}
		}
		return set
	}
	pIntersect := r.Intn(4)
	pCompl := r.Intn(4)
	for i := 0; i < n; i++ {
		switch {
		case i > 0 && r.Intn(8) < pIntersect:
			m := 1 + r.Intn(3)
			var e []int
			for j := 0; j < m; j++ {
				e = append(e, r.Intn(i))
			}
			s.Nodes = append(s.Nodes, sysNode{Op: 1, Edges: e})
		case i > 0 && r.Intn(8) < pCompl:
			s.Nodes = append(s.Nodes, sysNode{Op: 2, Edges: []int{r.Intn(i)}})
		default:
			nd := sysNode{Op: 0, Base: randSet()}
			for i > 0 && r.Intn(3) == 0 {
				nd.Edges = append(nd.Edges, r.Intn(i))
			}
			s.Nodes = append(s.Nodes, nd)
		}
	}
	// late includes create cycles
	pLate := r.Intn(5)
	for i := range s.Nodes {
		if s.Nodes[i].Op != 0 {
			continue
		}
		for r.Intn(6) < pLate {
			s.Nodes[i].Late = append(s.Nodes[i].Late, r.Intn(n))
			if r.Intn(2) == 0 {
				break
			}
		}
	}
	return s
}

// solve is the reference: returns (values, complementOnCycle).
func (s system) solve() ([]mset, bool) {
	n := len(s.Nodes)
	full := omega | (1<<uint(s.K) - 1)
	edges := make([][]int, n)
	for i, nd := range s.Nodes {
		edges[i] = append(append([]int(nil), nd.Edges...), nd.Late...)
	}
	// reach[i][j]: path of length >= 1 from i to j
	reach := make([][]bool, n)
	for i := range reach {
		reach[i] = make([]bool, n)
		var st []int
		st = append(st, edges[i]...)
		for len(st) > 0 {
			v := st[len(st)-1]
			st = st[:len(st)-1]
			if reach[i][v] {
				continue
			}
			reach[i][v] = true
			st = append(st, edges[v]...)
		}
	}
	for i, nd := range s.Nodes {
		if nd.Op == 2 && (nd.Edges[0] == i || reach[nd.Edges[0]][i]) {
			return nil, true
		}
	}
	val := make([]mset, n)
	done := make([]bool, n)
	same := func(i, j int) bool { return i == j || reach[i][j] && reach[j][i] }
	for remaining := n; remaining > 0; {
		progressed := false
		for i := 0; i < n; i++ {
			if done[i] {
				continue
			}
			// component of i
			var comp []int
			ready := true
			for j := 0; j < n; j++ {
				if same(i, j) {
					comp = append(comp, j)
				}
			}
			for _, v := range comp {
				for _, w := range edges[v] {
					if !same(i, w) && !done[w] {
						ready = false
					}
				}
			}
			if !ready {
				continue
			}
			// Kleene iteration from bottom inside the component.
			for _, v := range comp {
				val[v] = 0
			}
			for changed := true; changed; {
				changed = false
				for _, v := range comp {
					nd := s.Nodes[v]
					var nv mset
					switch nd.Op {
					case 0:
						for _, e := range nd.Base {
							nv |= 1 << uint(e)
						}
						for _, w := range edges[v] {
							nv |= val[w]
						}
					case 1:
						nv = full
						for _, w := range edges[v] {
							nv &= val[w]
						}
					case 2:
						nv = ^val[edges[v][0]] & full
					}
					if nv != val[v] {
						val[v] = nv
						changed = true
					}
				}
			}
			for _, v := range comp {
				done[v] = true
				remaining--
			}
			progressed = true
		}
		if !progressed {
			panic("reference solver stuck")
		}
	}
	return val, false
}

func (s system) runImpl() ([]container.IntSet, error) {
	cl := set.NewClosure(4 + len(s.Nodes)%5)
	fs := make([]*set.FutureSet, len(s.Nodes))
	for i, nd := range s.Nodes {
		switch nd.Op {
		case 0:
			fs[i] = cl.Add(append([]int(nil), nd.Base...))
			for _, e := range nd.Edges {
				fs[i].Include(fs[e])
			}
		case 1:
			var args []*set.FutureSet
			for _, e := range nd.Edges {
				args = append(args, fs[e])
			}
			fs[i] = cl.Intersect(args...)
		case 2:
			fs[i] = cl.Complement(fs[nd.Edges[0]], nil)
		}
	}
	for i, nd := range s.Nodes {
		for _, e := range nd.Late {
			fs[i].Include(fs[e])
		}
	}
	err := cl.Compute()
	out := make([]container.IntSet, len(fs))
	for i, f := range fs {
		out[i] = f.IntSet
	}
	return out, err
}

func (s system) shape() string {
	hasI, hasC, cyc := false, false, false
	for _, nd := range s.Nodes {
		hasI = hasI || nd.Op == 1
		hasC = hasC || nd.Op == 2
		cyc = cyc || len(nd.Late) > 0
	}
	return fmt.Sprintf("i=%v,c=%v,late=%v", hasI, hasC, cyc)
}

func c25System(c *fw.Ctx, s system) {
	c.Eval(1)
	want, wantErr := s.solve()
	got, err := s.runImpl()
	desc := s.String()
	if wantErr {
		c.Count("systems_with_cyclic_complement", 1)
	}
	if (err != nil) != wantErr {
		c.Violate(fmt.Sprintf("closure/error-mismatch/got=%v", err != nil),
			fmt.Sprintf("system: %s\nCompute() error = %v, reference says complement-on-cycle = %v", desc, err, wantErr), nil)
		return
	}
	if wantErr {
		c.Distinct("sys/" + desc)
		return
	}
	nontrivial := false
	for i := range want {
		g, ok := msetOf(got[i], s.K)
		if !ok || g != want[i] {
			kinds := []string{"union", "intersection", "complement"}
			c.Violate("closure/value-mismatch/"+kinds[s.Nodes[i].Op]+"/"+s.shape(),
				fmt.Sprintf("system: %s\nnode n%d = %v, reference least solution %v", desc, i, got[i], want[i]), nil)
			return
		}
		if want[i] != 0 && len(s.Nodes[i].Edges)+len(s.Nodes[i].Late) > 0 {
			nontrivial = true
		}
	}
	if nontrivial {
		c.Distinct("sys/" + desc)
		c.Count("systems_solved_and_compared", 1)
	}
}

func init() {
	fw.Register(&fw.Check{
		ID: "C25",
		Rule: "case 0..6: exhaustive pairs of finite/co-finite sets over universes 0..6 (3 reuse-buffer variants, Merge/Intersect/Complement/Empty/Equals vs bitmask model with an 'all other integers' element; pair non-trivial when both operands are neither empty nor full and differ); " +
			"other cases: batches of random equation systems (2-14 nodes, unions with base sets, intersections, complements, cycles made by late Include) built through set.Closure's API and compared node by node with a stratified Kleene least-fixpoint solver; system counted when distinct as text and some node with dependencies has a non-empty value or a complement lies on a cycle",
		Assumptions: []string{"the reference solver (naive reachability + Kleene iteration over bitmasks) is correct", "universe elements other than those mentioned behave uniformly (modelled by one element ω)"},
		Cases: func(tier string) int {
			if tier == "thorough" {
				return 7 + 2000
			}
			return 7 + 60
		},
		Run: func(c *fw.Ctx) {
			if c.Case < 7 {
				c25Algebra(c, c.Case)
				return
			}
			const batch = 1000
			for i := 0; i < batch; i++ {
				s := genSystem(c.R)
				if i == 0 {
					c.Sample(s.String())
				}
				c25System(c, s)
			}
		},
		MinNontrivial:    func(tier string) int { return 10000 },
		Exhaustive:       func(string) bool { return false },
		RequiredCounters: []string{"algebra_pairs", "systems_solved_and_compared", "systems_with_cyclic_complement"},
	})
	_ = sort.Ints
}
